"""C17, family `links`: WHICH features of a run reach the type check (Model/ValidateSet.v).

Generated requests over 1-3 root feature groups with `index_columns()`, Links between them, typed / untyped value features
(requested directly or as input features of a consumer group), key columns of every Arrow family the frameworks can join on,
lenient / strict via option / strict via the per-call flag, on PyArrow / Pandas / PythonDict, plus GlobalFilters on columns nobody
declared a type for.  Observation (harness-side wrappers, no source hooks): the (feature group, feature name, declared type, strict
option) of every feature of every FeatureSet that reaches ComputeFramework.run_validate_output_features ->
DataTypeValidator.validate.  Compared in coqc with
  chk_links       the model: outcome and the whole collection (index / filter features included) = Model/ValidateSet.run_request
  chk_links_spec  the statement: the run fails with a mismatch iff a feature THE USER DECLARED a type for (own declaration or the
                  group's return_data_type_rule) produced an incompatible column, and the typed features that reached the validator
                  are exactly the declared ones.
A spec (dict, JSON) is the replay format.
"""
from __future__ import annotations

import datetime as _dt
import decimal as _dec
import json
import logging
import re
from typing import Any, Dict, List, Optional, Tuple

from lib import vlib
from harness.gen_tables import DTYPES, atypes

logging.disable(logging.CRITICAL)

FRAMEWORKS = ["PyArrowTable", "PandasDataFrame", "PythonDictFramework"]
MODES = ["lenient", "strict_option", "strict_api"]
STRICT_KEY = "strict_type_enforcement"
N_ROWS = 2

# two distinct values per Arrow type (keys must be distinct: every table has two rows)
VALUES: Dict[str, List[Any]] = {
    "A_int8": [1, 2], "A_int16": [1, 2], "A_int32": [1, 2], "A_int64": [10, 20], "A_uint8": [1, 2],
    "A_float32": [0.5, 1.5], "A_float64": [0.25, 1.25], "A_bool": [True, False],
    "A_string": ["u1", "u2"], "A_large_string": ["u1", "u2"], "A_binary": [b"a", b"b"], "A_large_binary": [b"a", b"b"],
    "A_date32": [_dt.date(2020, 1, 1), _dt.date(2021, 2, 3)], "A_date64": [_dt.date(2020, 1, 1), _dt.date(2021, 2, 3)],
    "A_ts_s": [_dt.datetime(2020, 1, 1), _dt.datetime(2021, 2, 3)], "A_ts_ms": [_dt.datetime(2020, 1, 1), _dt.datetime(2021, 2, 3)],
    "A_ts_us": [_dt.datetime(2020, 1, 1), _dt.datetime(2021, 2, 3)], "A_ts_ns": [_dt.datetime(2020, 1, 1), _dt.datetime(2021, 2, 3)],
    "A_decimal128": [_dec.Decimal("1.5"), _dec.Decimal("2.5")],
}
# the type a declaration must have to be honoured by a column of that Arrow type (documented map; used by the generator only)
DTYPE_OF = {"A_int32": "INT32", "A_int64": "INT64", "A_float32": "FLOAT", "A_float64": "DOUBLE", "A_bool": "BOOLEAN",
            "A_string": "STRING", "A_large_string": "STRING", "A_binary": "BINARY", "A_large_binary": "BINARY",
            "A_date32": "DATE", "A_ts_ms": "TIMESTAMP_MILLIS", "A_ts_us": "TIMESTAMP_MICROS", "A_decimal128": "DECIMAL"}
# key (join) column types: one per Arrow family and width
KEY_ATYPES = ["A_string", "A_large_string", "A_int64", "A_int32", "A_int16", "A_int8", "A_uint8", "A_float64", "A_float32",
              "A_bool", "A_binary", "A_date32", "A_ts_us", "A_ts_ms", "A_decimal128"]
VALUE_ATYPES = ["A_int32", "A_int64", "A_float32", "A_float64", "A_bool", "A_string", "A_binary", "A_date32", "A_decimal128",
                "A_ts_us"]
OWN_PY = {"SAbsent": None, "STrue": True, "SFalse": False}


def _cfw(name: str) -> Any:
    from harness.c17 import _cfw as f
    return f(name)


def _dtype(name: Optional[str]) -> Any:
    from mloda.core.abstract_plugins.components.data_types import DataType
    return None if name is None else DataType[name]


def atype_name(t: Any) -> Optional[str]:
    """harness name of an Arrow type (decimal128 of any precision counts as A_decimal128); None = not in the table"""
    import pyarrow as pa
    for n, a in atypes().items():
        if a == t:
            return n
    if pa.types.is_decimal128(t):
        return "A_decimal128"
    return None


def make_data(fw: str, columns: List[Tuple[str, str]]) -> Any:
    import pyarrow as pa
    at = atypes()
    tbl = pa.table({n: pa.array(VALUES[a], type=at[a]) for n, a in columns})
    if fw == "PyArrowTable":
        return tbl
    if fw == "PandasDataFrame":
        return tbl.to_pandas()
    return tbl.to_pylist()


_PRODUCED: Dict[Tuple[str, str], Optional[str]] = {}


def produced_atype(fw: str, aname: str) -> Optional[str]:
    """The Arrow type of a column made from `aname` values as the framework holds it: the type itself on PyArrow, what pyarrow
    infers from the pandas column / the python values otherwise (library behaviour, computed without mloda).  None = no name for
    it in the table of Spec/Types.v: the generator does not use that (framework, type)."""
    import pyarrow as pa
    k = (fw, aname)
    if k not in _PRODUCED:
        data = make_data(fw, [("c", aname)])
        try:
            if fw == "PyArrowTable":
                t = data.schema.field("c").type
            elif fw == "PandasDataFrame":
                t = pa.Schema.from_pandas(data, preserve_index=False).field("c").type
            else:
                t = pa.Table.from_pylist(data).schema.field("c").type
            _PRODUCED[k] = atype_name(t)
        except Exception:  # noqa: BLE001
            _PRODUCED[k] = None
    return _PRODUCED[k]


# ------------------------------------------------------------------------------------------------------------
# observation
# ------------------------------------------------------------------------------------------------------------
class Observer:
    """Records what reaches the output validation.  Installed around one run, removed afterwards."""

    def __init__(self) -> None:
        self.sets: List[List[Tuple[str, str, Optional[str], str]]] = []
        self.cur: Optional[str] = None
        self.outside = 0

    def __enter__(self) -> "Observer":
        from mloda.core.abstract_plugins.compute_framework import ComputeFramework
        from mloda.core.abstract_plugins.components.validators.datatype_validator import DataTypeValidator
        self._cf, self._dv = ComputeFramework, DataTypeValidator
        self._o_run = ComputeFramework.__dict__["run_validate_output_features"]
        self._o_val = DataTypeValidator.__dict__["validate"]
        obs = self
        o_run = self._o_run
        o_val = self._o_val.__func__

        def run_validate_output_features(self_: Any, feature_group: Any, features: Any) -> Any:
            prev, obs.cur = obs.cur, getattr(feature_group, "__name__", str(feature_group))
            try:
                return o_run(self_, feature_group, features)
            finally:
                obs.cur = prev

        def validate(cls: Any, data: Any, features: Any, strict_only: bool = False) -> None:
            if obs.cur is None:
                obs.outside += 1
            rec = []
            for f in features.features:
                sv = f.options.get(STRICT_KEY) if f.options else None
                rec.append((obs.cur or "?", f.get_name(), f.data_type.name if f.data_type is not None else None,
                            "SAbsent" if sv is None else "STrue" if sv is True else "SFalse" if sv is False else f"S?{sv!r}"))
            obs.sets.append(sorted(rec, key=str))
            return o_val(cls, data, features, strict_only)

        ComputeFramework.run_validate_output_features = run_validate_output_features  # type: ignore[method-assign]
        DataTypeValidator.validate = classmethod(validate)  # type: ignore[method-assign]
        return self

    def __exit__(self, *a: Any) -> None:
        self._cf.run_validate_output_features = self._o_run  # type: ignore[method-assign]
        self._dv.validate = self._o_val  # type: ignore[method-assign]

    def entries(self) -> List[Tuple[str, str, Optional[str], str]]:
        return sorted({e for s in self.sets for e in s}, key=str)


# ------------------------------------------------------------------------------------------------------------
# spec -> real feature groups -> run
# ------------------------------------------------------------------------------------------------------------
_COUNTER = [0]


def build(spec: dict) -> Tuple[List[Any], Optional[set], Any, List[Any]]:
    """-> (feature group classes by position, links or None, GlobalFilter or None, requested Feature objects)"""
    import pyarrow as pa
    from mloda.provider import FeatureGroup, DataCreator
    from mloda.user import Feature, Index, JoinSpec, Link, GlobalFilter
    fw = spec["fw"]
    cfw = _cfw(fw)
    at = atypes()
    _COUNTER[0] += 1
    tag = _COUNTER[0]
    classes: List[Any] = []

    def rule_fn(rule: Dict[str, str]) -> Any:
        def return_data_type_rule(cls: Any, feature: Any) -> Any:
            return _dtype(rule.get(feature.get_name()))
        return classmethod(return_data_type_rule)

    def index_fn(index: List[List[str]]) -> Any:
        def index_columns(cls: Any) -> Any:
            return [Index(tuple(i)) for i in index] if index else None
        return classmethod(index_columns)

    for gi, g in enumerate(spec["groups"]):
        cols = [(n, a) for n, a in g["cols"]]
        ns: Dict[str, Any] = {
            "input_data": classmethod(lambda cls, _c=cols: DataCreator({n for n, _ in _c})),
            "compute_framework_rule": classmethod(lambda cls: {cfw}),
            "index_columns": index_fn(g["index"]),
            "return_data_type_rule": rule_fn(g.get("rule") or {}),
            "calculate_feature": classmethod(lambda cls, data, features, _c=cols: make_data(fw, _c)),
        }
        classes.append(type(f"C17L{tag}_{g['name']}", (FeatureGroup,), ns))

    def mkfeat(f: dict) -> Any:
        own = OWN_PY[f["own"]]
        return Feature(f["name"], data_type=_dtype(f["declared"]), options={} if own is None else {STRICT_KEY: own})

    cons = spec.get("consumer")
    if cons:
        cname, catype, deps = cons["name"], cons["atype"], cons["deps"]

        def calc(cls: Any, data: Any, features: Any) -> Any:
            n = len(data)
            col = pa.array((VALUES[catype] * n)[:n], type=at[catype])
            if fw == "PyArrowTable":
                return data.append_column(cname, col)
            if fw == "PandasDataFrame":
                d = data.copy()
                d[cname] = pa.table({"c": col}).to_pandas()["c"].values
                return d
            return [{**r, cname: v} for r, v in zip(data, col.to_pylist())]

        ns = {
            "match_feature_group_criteria": classmethod(
                lambda cls, feature_name, options, data_access_collection=None: str(getattr(feature_name, "name", feature_name)) == cname),
            "input_features": lambda self, options, feature_name: {mkfeat(d) for d in deps},
            "compute_framework_rule": classmethod(lambda cls: {cfw}),
            "return_data_type_rule": rule_fn(cons.get("rule") or {}),
            "calculate_feature": classmethod(calc),
        }
        classes.append(type(f"C17L{tag}_{cons['group_name']}", (FeatureGroup,), ns))

    links = None
    if spec["links"] is not None:
        links = set()
        for lg, lidx, rg, ridx, jt in spec["links"]:
            links.add(getattr(Link, jt)(JoinSpec(classes[lg], Index(tuple(lidx))), JoinSpec(classes[rg], Index(tuple(ridx)))))
    gf = None
    if spec["filters"]:
        gf = GlobalFilter()
        for f in spec["filters"]:
            ff: Any = f["name"]
            if f["declared"] is not None or f["own"] != "SAbsent":
                ff = mkfeat(f)
            gf.add_filter(ff, "min", {"value": f["min"]})
    requested = [mkfeat(r) for r in spec["requested"]]
    return classes, links, gf, requested


def classify(e: BaseException) -> str:
    s = str(e).replace("\\'", "'")
    if "DataTypeMismatchError" in s or type(e).__name__ == "DataTypeMismatchError":
        m = re.search(r"Feature '([^']*)': declared (\w+), got (\w+)", s)
        return "mismatch" + (f":{m.group(1)}:{m.group(2)}:{m.group(3)}" if m else "")
    if "has a data type mismatch with feature group" in s:
        return "reject"
    if ("conflicting values" in s and "Duplicate key" in s) or "already exists in group options with a different value" in s:
        return "optconflict"
    return "err:" + type(e).__name__ + ":" + (s.strip().replace("\\n", "\n").splitlines()[-1][:160] if s.strip() else "")


def run_spec(spec: dict) -> dict:
    """Runs the REAL mloda on the spec -> {obs, entries, sets, outside}"""
    from mloda.user import mloda, PluginCollector
    classes, links, gf, requested = build(spec)
    names = {c.__name__: i for i, c in enumerate(classes)}
    with Observer() as ob:
        try:
            res = mloda.run_all(requested, compute_frameworks={_cfw(spec["fw"])}, links=links, global_filter=gf,
                                plugin_collector=PluginCollector.enabled_feature_groups(set(classes)),
                                strict_type_enforcement=(spec["mode"] == "strict_api"))
            obs = "ok" if isinstance(res, list) and len(res) >= 1 else f"err:results:{res!r}"[:80]
        except Exception as e:  # noqa: BLE001
            obs = classify(e)
    ents = [[names.get(g, -1), n, t, s] for g, n, t, s in ob.entries()]
    return {"obs": obs, "entries": ents, "n_sets": len(ob.sets), "outside": ob.outside}


# ------------------------------------------------------------------------------------------------------------
# generator
# ------------------------------------------------------------------------------------------------------------
def usable(fw: str, aname: str) -> bool:
    return aname in VALUES and produced_atype(fw, aname) is not None


def pick_declared(rng: Any, produced: str, p_none: float = 0.3, p_match: float = 0.56) -> Optional[str]:
    r = rng.random()
    if r < p_none:
        return None
    if r < p_none + p_match and produced in DTYPE_OF:
        return DTYPE_OF[produced]
    return rng.choice(DTYPES)


def gen_spec(rng: Any, fw: Optional[str] = None, mode: Optional[str] = None, key: Optional[str] = None) -> dict:
    fw = fw or rng.choice(FRAMEWORKS)
    mode = mode or rng.choice(MODES)
    keys = [k for k in KEY_ATYPES if usable(fw, k)]
    key = key or rng.choice(keys)
    vals = [v for v in VALUE_ATYPES if usable(fw, v)]
    n_roots = rng.choice([1, 2, 2, 2, 3])
    same_key_name = rng.random() < 0.6
    multi = rng.random() < 0.15            # two-column index: the index feature is named after its FIRST column only
    groups = []
    for gi in range(n_roots):
        kname = "uid" if same_key_name else f"k{gi}"
        cols = [[kname, key]]
        if multi:
            cols.append(["uid2" if same_key_name else f"kk{gi}", "A_int64"])
        for j in range(rng.randrange(1, 4)):
            cols.append([f"v{gi}{j}", rng.choice(vals)])
        index = [[c[0] for c in cols[:2 if multi else 1]]]
        if rng.random() < 0.2:
            index.append([cols[-1][0]])          # a second index no link names: no index feature for it
        if rng.random() < 0.1:
            index = []                           # no index_columns(): no index feature although links are passed
        rule = {}
        for n, a in cols[1:]:
            if rng.random() < 0.12:
                rule[n] = pick_declared(rng, produced_atype(fw, a) or a, 0.0, 0.7)
        if rng.random() < 0.06:
            rule[cols[0][0]] = pick_declared(rng, produced_atype(fw, key) or key, 0.0, 0.5)   # a rule on the key column: never
            # reaches the index feature (it is stored without set_data_type); it does reach a key the user asks for
        groups.append({"name": f"G{gi}", "cols": cols, "index": index, "rule": rule})

    def kidx(gi: int) -> List[str]:
        return [c[0] for c in groups[gi]["cols"][:2 if multi else 1]]

    links: Optional[List[list]] = []
    for gi in range(n_roots - 1):
        links.append([gi, kidx(gi), gi + 1, kidx(gi + 1), rng.choice(["inner", "inner", "left", "outer"])])
    if n_roots == 3 and rng.random() < 0.3:
        links.append([0, kidx(0), 2, kidx(2), "inner"])
    if n_roots == 1:
        # one root: a link needs a partner - link the root to a second, never requested root
        groups.append({"name": "Gx", "cols": [["uid" if same_key_name else "kx", key], ["vx", "A_int64"]],
                       "index": [["uid" if same_key_name else "kx"]], "rule": {}})
        links.append([0, kidx(0), 1, groups[1]["index"][0], "inner"])
    if rng.random() < 0.08:
        links = None                              # no links passed: no index features at all

    own_req = "STrue" if mode == "strict_option" else "SAbsent"

    def ufeat(gi: int, name: str, atype: str, own: str) -> dict:
        return {"group": gi, "name": name, "declared": pick_declared(rng, produced_atype(fw, atype) or atype), "own": own}

    requested: List[dict] = []
    consumer = None
    n_real = n_roots
    joinable = links is not None and all(g["index"] for g in groups[:n_real]) and not multi
    if rng.random() < 0.6 and (n_real == 1 or joinable):
        deps = []
        for gi in range(n_real):
            vs = groups[gi]["cols"][2 if multi else 1:]
            chosen = rng.sample(vs, rng.randrange(1, len(vs) + 1))
            # Features of one group with different declared types (or options) become separate steps; when the group takes part in
            # a join the planner then finds "more than one solution for the join" (not a matter of this property): with several
            # roots all typed input features of one root share ONE declared type (the others are untyped) and one option.
            one_type = pick_declared(rng, produced_atype(fw, chosen[0][1]) or chosen[0][1], 0.15, 0.5) if n_real > 1 else None
            for n, a in chosen:
                r = rng.random()
                own = "SAbsent" if r < 0.85 or n_real > 1 else "STrue" if r < 0.95 else "SFalse"
                d = ufeat(gi, n, a, own)
                if n_real > 1:
                    d["declared"] = one_type if rng.random() < 0.7 else None
                deps.append(d)
        catype = rng.choice(vals)
        consumer = {"name": "score", "group_name": "Cons", "atype": catype, "deps": deps, "rule": {}}
        if rng.random() < 0.1:
            consumer["rule"]["score"] = pick_declared(rng, produced_atype(fw, catype) or catype, 0.0, 0.7)
        requested.append({"group": len(groups), "name": "score",
                          "declared": pick_declared(rng, produced_atype(fw, catype) or catype), "own": own_req})
    else:
        for gi in range(n_real):
            vs = groups[gi]["cols"][2 if multi else 1:]
            for n, a in rng.sample(vs, rng.randrange(1, len(vs) + 1)):
                requested.append(ufeat(gi, n, a, own_req))
        if not same_key_name and rng.random() < 0.5:
            gi = rng.randrange(n_real)
            requested.append(ufeat(gi, groups[gi]["cols"][0][0], key, own_req))   # the user asks for the key column, declared or not
    if mode == "strict_api" and rng.random() < 0.04 and requested:
        requested[0]["own"] = "SFalse"            # Options.add conflict

    filters: List[dict] = []
    if rng.random() < 0.4:
        # filters on numeric columns nobody declared a type for by the filter (min with a bound below every value keeps all rows)
        cand = []
        for gi in range(n_real):
            for n, a in groups[gi]["cols"]:
                if produced_atype(fw, a) in ("A_int8", "A_int16", "A_int32", "A_int64", "A_uint8", "A_float32", "A_float64"):
                    cand.append((n, a))
        rng.shuffle(cand)
        seen = set()
        for n, a in cand[:rng.choice([1, 1, 2, 3])]:
            if n in seen:
                continue
            seen.add(n)
            f = {"name": n, "declared": None, "own": "SAbsent", "min": -1000}
            if rng.random() < 0.15:
                f["declared"] = pick_declared(rng, produced_atype(fw, a) or a, 0.0, 0.6)   # the user declares a type ON the filter feature
            filters.append(f)
    if consumer and filters:
        # features of one group with different options give the group's filters different option sets: the planner refuses that
        # ("different filters for different features"; not a matter of this property)
        for d in consumer["deps"]:
            d["own"] = "SAbsent"
    if consumer and n_real > 1:
        # same reason as above: a rule or a declaration on a filter feature would give a joined root a second declared type
        for g in groups:
            g["rule"] = {k: v for k, v in g["rule"].items() if k == g["cols"][0][0]}
        for f in filters:
            f["declared"] = None
    return {"fw": fw, "mode": mode, "key": key, "groups": groups, "consumer": consumer, "links": links, "filters": filters,
            "requested": requested}


def seed_matrix() -> List[dict]:
    """Fixed cells: Users(uid, age) x Orders(uid, amount) joined on uid for a consumer with typed input features (every declaration
    honoured), over frameworks x modes x key families; and the same request asked for directly."""
    out = []
    for fw in FRAMEWORKS:
        age = "A_int32" if usable(fw, "A_int32") and produced_atype(fw, "A_int32") == "A_int32" else "A_int64"
        for mode in MODES:
            for key in KEY_ATYPES:
                if not usable(fw, key):
                    continue
                for shape in ("consumer", "direct"):
                    if shape == "direct" and key not in ("A_string", "A_int64", "A_binary"):
                        continue
                    own = "STrue" if mode == "strict_option" else "SAbsent"
                    groups = [{"name": "Users", "cols": [["uid", key], ["age", age]], "index": [["uid"]], "rule": {}},
                              {"name": "Orders", "cols": [["uid", key], ["amount", "A_float64"]], "index": [["uid"]], "rule": {}}]
                    deps = [{"group": 0, "name": "age", "declared": DTYPE_OF[age], "own": "SAbsent"},
                            {"group": 1, "name": "amount", "declared": "DOUBLE", "own": "SAbsent"}]
                    if shape == "consumer":
                        cons = {"name": "score", "group_name": "Score", "atype": "A_float64", "deps": deps, "rule": {}}
                        req = [{"group": 2, "name": "score", "declared": "DOUBLE", "own": own}]
                    else:
                        cons = None
                        req = [dict(d, own=own) for d in deps]
                    out.append({"fw": fw, "mode": mode, "key": key, "groups": groups, "consumer": cons,
                                "links": [[0, ["uid"], 1, ["uid"], "inner"]], "filters": [], "requested": req})
    return out


KF_SPLIT = "C17-two-declared-types-on-a-joined-root-rejected"
KF_SPLIT_MSG = "There are more than one solution for the join"


def split_cells() -> List[dict]:
    """Witness cells of the known finding KF_SPLIT: Users(uid, a:int64, b:string) x Orders(uid, c:double) joined on uid for a
    consumer whose input features declare a: INT64, b: STRING, c: DOUBLE - every declaration honoured, the request must succeed."""
    out = []
    for fw in FRAMEWORKS:
        for mode in ("lenient", "strict_api"):
            groups = [{"name": "Users", "cols": [["uid", "A_string"], ["a", "A_int64"], ["b", "A_string"]], "index": [["uid"]], "rule": {}},
                      {"name": "Orders", "cols": [["uid", "A_string"], ["c", "A_float64"]], "index": [["uid"]], "rule": {}}]
            deps = [{"group": 0, "name": "a", "declared": "INT64", "own": "SAbsent"},
                    {"group": 0, "name": "b", "declared": "STRING", "own": "SAbsent"},
                    {"group": 1, "name": "c", "declared": "DOUBLE", "own": "SAbsent"}]
            out.append({"fw": fw, "mode": mode, "key": "A_string", "groups": groups,
                        "consumer": {"name": "score", "group_name": "Score", "atype": "A_float64", "deps": deps, "rule": {}},
                        "links": [[0, ["uid"], 1, ["uid"], "inner"]], "filters": [],
                        "requested": [{"group": 2, "name": "score", "declared": "DOUBLE", "own": "SAbsent"}]})
    return out


# ------------------------------------------------------------------------------------------------------------
# Coq terms
# ------------------------------------------------------------------------------------------------------------
def _s(x: str) -> str:
    return vlib.cq_str(x)


def _odt(x: Optional[str]) -> str:
    return "None" if x is None else f"(Some {x})"


def _strs(xs: List[str]) -> str:
    return "[" + "; ".join(_s(x) for x in xs) + "]"


def spec_term(spec: dict, result: dict) -> str:
    fw = spec["fw"]
    groups = []
    cols = []
    for g in spec["groups"]:
        rule = "; ".join(f"({_s(n)}, {t})" for n, t in sorted((g.get("rule") or {}).items()))
        groups.append(f"{{| g_cols := {_strs([c[0] for c in g['cols']])}; g_index := [{'; '.join(_strs(i) for i in g['index'])}]; "
                      f"g_rule := [{rule}] |}}")
        cols.append("[" + "; ".join(f"({_s(n)}, from_arrow_spec {produced_atype(fw, a)})" for n, a in g["cols"]) + "]")
    cons = spec.get("consumer")
    if cons:
        rule = "; ".join(f"({_s(n)}, {t})" for n, t in sorted((cons.get("rule") or {}).items()))
        groups.append(f"{{| g_cols := [{_s(cons['name'])}]; g_index := []; g_rule := [{rule}] |}}")
        cols.append(f"[({_s(cons['name'])}, from_arrow_spec {produced_atype(fw, cons['atype'])})]")
    if spec["links"] is None:
        links = "None"
    else:
        links = "(Some [" + "; ".join(f"{{| k_lg := {lg}; k_lidx := {_strs(li)}; k_rg := {rg}; k_ridx := {_strs(ri)} |}}"
                                      for lg, li, rg, ri, _ in spec["links"]) + "])"
    filters = "[" + "; ".join(f"{{| f_name := {_s(f['name'])}; f_decl := {_odt(f['declared'])}; f_own := {f['own']} |}}"
                              for f in spec["filters"]) + "]"
    rs = []
    for r in spec["requested"]:
        deps = cons["deps"] if cons and r["group"] == len(spec["groups"]) else []
        ds = "; ".join(f"{{| d_group := {d['group']}; d_name := {_s(d['name'])}; d_decl := {_odt(d['declared'])}; d_own := {d['own']} |}}"
                       for d in deps)
        rs.append(f"{{| r_group := {r['group']}; r_name := {_s(r['name'])}; r_decl := {_odt(r['declared'])}; r_own := {r['own']}; "
                  f"r_deps := [{ds}] |}}")
    api = "true" if spec["mode"] == "strict_api" else "false"
    obs = result["obs"].split(":")[0]
    o = {"ok": "Some QOk", "mismatch": "Some QMismatch", "reject": "Some QReject", "optconflict": "Some QOptConflict"}.get(obs, "None")
    ents = "[" + "; ".join(f"{{| e_group := {g}; e_name := {_s(n)}; e_type := {_odt(t)}; e_strict := {s} |}}"
                           for g, n, t, s in result["entries"] if g >= 0 and s in OWN_PY) + "]"
    wellformed = all(g >= 0 and s in OWN_PY for g, n, t, s in result["entries"]) and result["outside"] == 0
    return (f"{{| lc_groups := [{'; '.join(groups)}]; lc_links := {links}; lc_filters := {filters}; lc_api := {api}; "
            f"lc_req := [{'; '.join(rs)}]; lc_cols := [{'; '.join(cols)}]; lc_obs := {o if wellformed else 'None'}; lc_entries := {ents} |}}")


REQ = ["MV.Spec.Types", "MV.Model.Validate", "MV.Model.ValidateChain", "MV.Model.ValidateSet", "MV.Model.ValidateSetCheck"]


def shape_of(spec: dict) -> str:
    return ("consumer" if spec.get("consumer") else "direct") + f"{len(spec['groups'])}"


def run_family(rep: vlib.Reporter, tier: str, seed: int) -> bool:
    """-> True when a concrete failing input was reported"""
    import random
    rng = random.Random(seed * 41 + 11)
    specs = seed_matrix() + split_cells()
    n_fixed = len(specs)
    n_rand = 6000 if tier == "thorough" else 200
    for k in range(n_rand):
        specs.append(gen_spec(rng, fw=FRAMEWORKS[k % 3]))
    results = [run_spec(s) for s in specs]
    terms = [spec_term(s, r) for s, r in zip(specs, results)]
    bad_m, info = vlib.run_cases("C17", "links", REQ, "chk_links", terms, case_type="link_case", shard=150)
    bad_s, info_s = vlib.run_cases("C17", "links_spec", REQ, "chk_links_spec", terms, case_type="link_case", shard=150)
    bad_m_s, bad_s_s = set(bad_m), set(bad_s)
    # known-defect domain (decided in Coq: in_kf_split_domain): the request is refused with the planner's join-ambiguity error
    cand = [i for i in sorted(bad_m_s | bad_s_s) if KF_SPLIT_MSG in results[i]["obs"]]
    in_dom: set = set()
    if cand:
        not_in, _ = vlib.run_cases("C17", "links_kf", REQ, "in_kf_split_domain", [terms[i] for i in cand], case_type="link_case")
        in_dom = {cand[j] for j in range(len(cand)) if j not in set(not_in)}
    dist: Dict[str, int] = {}
    cover: Dict[str, int] = {}
    found = False
    n_reported = 0
    for i, (s, r) in enumerate(zip(specs, results)):
        k = f"{s['fw']}:{s['mode']}:{r['obs'].split(':')[0]}"
        dist[k] = dist.get(k, 0) + 1
        n_idx = sum(1 for g, n, t, st in r["entries"] if t is None)
        for tag, on in (("links", s["links"] is not None), ("filters", bool(s["filters"])), ("consumer", bool(s.get("consumer"))),
                        ("key:" + s["key"], True), ("shape:" + shape_of(s), True), ("untyped_entries_seen", n_idx > 0),
                        ("declared_filter", any(f["declared"] for f in s["filters"])),
                        ("rule", any(g.get("rule") for g in s["groups"]))):
            if on:
                cover[tag] = cover.get(tag, 0) + 1
        typed = any(t is not None for g, n, t, st in r["entries"])
        if typed and s["links"] is not None and n_idx > 0:
            rep.nontrivial(("links", json.dumps(s, sort_keys=True)))
        if i in in_dom:
            rep.finding(KF_SPLIT, f"{s['fw']} {s['mode']}: {r['obs']}", {"kind": "links", "spec": s, "result": r})
            continue
        if (i in bad_m_s or i in bad_s_s) and n_reported < 12:
            n_reported += 1
            which = ("neither the model's (Model/ValidateSet.run_request) nor what the statement asks for" if i in bad_m_s and i in bad_s_s
                     else "not what the statement asks for (the model reproduces it)" if i in bad_s_s
                     else "not the model's (Model/ValidateSet.run_request); it agrees with the statement")
            typed_obs = sorted({(g, n, t, st) for g, n, t, st in r["entries"] if t is not None})
            rep.finding(f"links:{s['fw']}:{s['mode']}:{s['key']}:{shape_of(s)}:{r['obs']}:{i if i >= n_fixed else 'fixed%d' % i}",
                        f"request with Links/index columns on {s['fw']} ({s['mode']}, key column {s['key']}, requested "
                        f"{[(q['name'], q['declared']) for q in s['requested']]}, input features "
                        f"{[(d['name'], d['declared']) for d in (s['consumer'] or {}).get('deps', [])]}, filters "
                        f"{[f['name'] for f in s['filters']]}): run_all outcome {r['obs']!r}, typed features that reached "
                        f"DataTypeValidator.validate {typed_obs} - {which}",
                        {"kind": "links", "spec": s, "result": r}, found_input=(i in bad_s_s))
            found = found or i in bad_s_s
    rep.count(len(specs))
    rep.add("links_family", {**info, "cases": len(specs), "fixed_matrix": n_fixed, "generated": n_rand,
                             "model_disagreements": len(bad_m_s - in_dom), "statement_disagreements": len(bad_s_s - in_dom),
                             "known_defect_domain_cells": len(in_dom),
                             "outcome_distribution": dist, "coverage": cover,
                             "spec_eval_s": info_s["coq_eval_s"]})
    if specs:
        rep.sample({"links_spec": specs[n_fixed] if len(specs) > n_fixed else specs[0],
                    "result": results[n_fixed] if len(specs) > n_fixed else results[0]})
    return found


def replay(r: dict) -> None:
    res = run_spec(r["spec"])
    print("replay links:", json.dumps(r["spec"]))
    print("  ->", res["obs"], "(recorded:", r.get("result", {}).get("obs"), ")")
    print("  typed features that reached the validator:", [e for e in res["entries"] if e[2] is not None])
    print("  untyped features that reached the validator:", [e for e in res["entries"] if e[2] is None])
