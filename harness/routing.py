"""Model/Routing.v case terms from an exported plan and an observed SYNC run (shared by C02 and C01).

terms(plan, begin_order, foot, payload) -> (list of rstep terms, list of foot terms) or None when a begun step is neither
a FeatureGroupStep nor a TransformFrameworkStep (JoinStep: outside the routing model) or has no observed footprint.
  plan         harness.universe.export_plan(...) (needs req_order / tfs_order / right_uuid)
  begin_order  step ids in the order their execute() began
  foot         {sid: (object written, [objects read...])} with the run's own object numbering (harness.orch.run_observed)
  payload      optional sid -> (rs_root term, rs_defs term); default ("None", "[]") (routing only, no data)
Observed objects are renamed to the id of the first begun step that wrote to them, which is how the model names objects.

check(prop, name, items) evaluates chk_route / chk_noamb in Coq for a list of term pairs:
  -> (indices whose footprints differ from the model, indices with an ambiguous deciding lookup, info)
"""
from __future__ import annotations

from typing import Any, Callable, Dict, List, Optional, Sequence, Set, Tuple

from lib import vlib
from lib.vlib import cq_list, cq_nat

REQ = ["MV.Spec.RefEval", "MV.Model.DataPlane", "MV.Model.Routing"]
CLS = {"PyArrowTable": 1, "PandasDataFrame": 2, "PythonDictFramework": 3}

DEFS = """
Definition opt_nat_eqb (a b : option nat) : bool :=
  match a, b with Some x, Some y => Nat.eqb x y | None, None => true | _, _ => false end.
Definition foot_eqb (a b : foot) : bool :=
  Nat.eqb (fst (fst a)) (fst (fst b)) && Nat.eqb (snd (fst a)) (snd (fst b)) && opt_nat_eqb (snd a) (snd b).
Fixpoint foots_eqb (a b : list foot) : bool :=
  match a, b with [] , [] => true | x :: r, y :: t => foot_eqb x y && foots_eqb r t | _, _ => false end.
(* the objects each begun step wrote to / read from, computed by Model/Routing.v from the plan and the begin order, equal the
   observed footprints (objects named by the step that created them); no lookup fails on a step that began *)
Definition chk_route (c : list rstep * list foot) : bool :=
  match c with (steps, obs) => let (tr, ok) := route_all [] steps in ok && foots_eqb (map foot_of tr) obs end.
(* no deciding registry lookup of the run had two matching objects *)
Definition chk_noamb (c : list rstep * list foot) : bool :=
  match ambiguous_steps [] (fst c) with [] => true | _ => false end.
"""


def _cls(name: str) -> int:
    if name not in CLS:
        CLS[name] = 10 + len(CLS)
    return CLS[name]


def _optn(v: Optional[int]) -> str:
    return f"(Some {cq_nat(v)})" if v is not None else "None"


def with_run_orders(plan: Dict[str, Any], orders: Optional[Dict[Any, Dict[str, Any]]]) -> Dict[str, Any]:
    """The plan with the set-iteration orders of the step objects that actually ran (run_observed(..., ren=...)["orders"]):
    every run executes a deep copy of the session's plan, and a copied set need not iterate like the original."""
    if not orders:
        return plan
    steps = []
    for s in plan["steps"]:
        o = orders.get(s["sid"], orders.get(str(s["sid"])))
        if o:
            s = dict(s)
            s["req_order"] = o["req"]
            if s["kind"] == "FG":
                s["tfs_order"] = o["tfs"]
            elif s["kind"] == "JOIN":
                s["left_order"], s["right_order"] = o["left"], o["right"]
            elif s["kind"] == "TFS":
                s["right_uuid"] = o["right_uuid"]
        steps.append(s)
    return {**plan, "steps": steps}


def terms(plan: Dict[str, Any], begin_order: Sequence[int], foot: Dict[int, Tuple[int, List[int]]],
          payload: Optional[Callable[[Dict[str, Any]], Tuple[str, str]]] = None) -> Optional[Tuple[List[str], List[str]]]:
    steps = {s["sid"]: s for s in plan["steps"]}
    creator: Dict[int, int] = {}
    rsteps: List[str] = []
    feet: List[str] = []
    for sid in begin_order:
        s = steps.get(sid)
        ft = foot.get(sid)
        if s is None or ft is None or s["kind"] not in ("FG", "TFS") or "req_order" not in s:
            return None
        w, reads = ft
        creator.setdefault(w, sid)
        rd = [x for x in reads if x != w]
        if s["kind"] == "FG":
            rroot, rdefs = payload(s) if payload else ("None", "[]")
            rsteps.append(f"{{| rs_sid := {cq_nat(sid)}; rs_kind := RFG; rs_cls := {_cls(s['cfw'])}; rs_from := 0; "
                          f"rs_any := {cq_nat(s['any_uuid'] or 0)}; rs_cir := {cq_list(cq_nat(u) for u in s['children_if_root'])}; "
                          f"rs_tfs := {cq_list(cq_nat(u) for u in s['tfs_order'])}; rs_req := {cq_list(cq_nat(u) for u in s['req_order'])}; "
                          f"rs_right := None; rs_link := None; rs_root := {rroot}; rs_defs := {rdefs} |}}")
            feet.append(f"({cq_nat(sid)}, {cq_nat(creator[w])}, None)")
        else:
            rsteps.append(f"{{| rs_sid := {cq_nat(sid)}; rs_kind := RTFS; rs_cls := {_cls(s['to_cfw'])}; rs_from := {_cls(s['from_cfw'])}; "
                          f"rs_any := 0; rs_cir := []; rs_tfs := []; rs_req := {cq_list(cq_nat(u) for u in s['req_order'])}; "
                          f"rs_right := {_optn(s.get('right_uuid'))}; rs_link := {_optn(s.get('link_id'))}; rs_root := None; rs_defs := [] |}}")
            src_c = creator.get(rd[0]) if rd else creator[w]
            feet.append(f"({cq_nat(sid)}, {cq_nat(creator[w])}, {_optn(src_c)})")
    return rsteps, feet


def check(prop: str, name: str, items: List[Tuple[List[str], List[str]]], extra_defs: str = "",
          requires: Optional[List[str]] = None) -> Tuple[List[int], Set[int], Dict[str, Any]]:
    if not items:
        return [], set(), {}
    cases = [f"({cq_list(a)}, {cq_list(b)})" for a, b in items]
    req = requires or REQ
    bad, info = vlib.run_cases(prop, name, req, "chk_route", cases, extra_defs=DEFS + extra_defs, case_type="list rstep * list foot", shard=100)
    amb, _ = vlib.run_cases(prop, name + "_amb", req, "chk_noamb", cases, extra_defs=DEFS + extra_defs, case_type="list rstep * list foot", shard=100)
    return bad, set(amb), info
