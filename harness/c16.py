"""C16 — chained names, option-configured and JSON-configured features are equivalent.

Model: coq/Model/ChainParser.v, coq/Model/ConfigLoader.v; specs: coq/Spec/ChainName.v, coq/Spec/ConfigSchema.v;
theorems: coq/Props/C16.v (proofs in coq/Proofs/ChainParserP.v, coq/Proofs/NotationsP.v).

T2 correspondences (the real function and the model evaluated by vm_compute on the same inputs):
  parse    : FeatureChainParser.parse_feature_name with the patterns r".*__([\\w]+)_<suf>$" on generated names:
             well-formed chains up to depth 4, a malformed stream (extra underscores, empty parts, non-word operations,
             newlines, missing separator, wrong suffix) and all strings over a 4-letter alphabet up to a length bound
  infeat   : Options.get_in_features on every spelling (str, comma string, list, set, frozenset, Feature, mixtures, junk)
  inputs   : FeatureChainParserMixin.input_features on the real aggregation / missing-value classes and on generated
             mixin classes with other in-feature bounds (name first, options fallback, "&", "~")
  match    : match_feature_group_criteria and the operation extraction of the two built-in groups
  json     : load_features_from_config on valid documents and on mutations that violate the published schema
  pair     : input_features (planning) and _extract_source_features (calculation) of the same (group, name, options):
             both equal the model pair (plan_sources, calc_sources) and the calculation reads what was planned
  columns  : get_column_base_feature, resolve_multi_column_feature and the default matcher of a root group on "~" names
End to end (mloda.run_all, Pandas and PyArrow, trace through an Extender hook):
  e2e      : a chain written as a name, as nested options and as a JSON document: values, value oracle, group trace
  e2e_bad  : malformed names and schema-invalid documents must be rejected; the verdict is compared with the model
  sources  : every notation of the LAST link of a chain of length 1-4 (name, name + in_features = predecessor / root /
             ancestor / another column via Options and via JSON, options only, JSON): identical values, the input the planner
             resolved (Extender hook) and the column read (identified from the value) against the model
  subcol   : chains over a sub-column source (m~1) in the three notations
  unprot   : nested option / JSON descriptions without feature_chainer_parser_key protection (equal or rejected)
"""
from __future__ import annotations

import itertools
import json
import logging
import math
import random
import signal
import time
from enum import Enum
from fractions import Fraction
from typing import Any, Dict, List, Optional, Sequence, Tuple

from lib import vlib
from lib.vlib import cq_list, cq_str, cq_nat, cq_bool

LEVEL = "proof"
logging.disable(logging.CRITICAL)
REQ = ["MV.Model.ChainParser", "MV.Spec.ChainName", "MV.Model.ConfigLoader", "MV.Spec.ConfigSchema", "MV.Model.ChainSources"]

KF_UNHASHABLE = "C16-unhashable-in-features-spelling"
KF_NESTED = "C16-nested-options-need-protected-keys"
KF_UNTYPED = "C16-json-untyped-fields-accepted"
KF_DROPPED = "C16-json-options-silently-dropped"
KF_SUBCOL = "C16-subcolumn-source-name-claimed-by-producer"

# ------------------------------------------------------------------------------------------------------------
# Coq side: generated group universe and checkers (all over the model definitions of Model/*.v)
# ------------------------------------------------------------------------------------------------------------
EXTRA = r"""
From Coq Require Import Ascii.
Definition g_dist : grp := {| g_sufs := [lit "distance"]; g_key := lit "distance_type"; g_vocab := map lit ["euclid"; "geo"];
  g_strict := true; g_defaults := []; g_name_strict := false; g_min := 2; g_max := Some 2 |}.
Definition g_cent : grp := {| g_sufs := [lit "centrality"]; g_key := lit "centrality_type"; g_vocab := map lit ["deg"; "btw"];
  g_strict := false; g_defaults := [lit "damping"]; g_name_strict := false; g_min := 1; g_max := None |}.
Definition g_m13 : grp := {| g_sufs := [lit "x_aggr"]; g_key := lit "xop"; g_vocab := map lit ["p"; "q"];
  g_strict := true; g_defaults := []; g_name_strict := false; g_min := 1; g_max := Some 3 |}.
Definition groups := [g_aggr; g_mv; g_dist; g_cent; g_m13].
Definition grp_of (n : nat) := nth n groups g_aggr.

Definition set_eqb (a b : list pv) := forallb (fun x => existsb (pv_eqb x) b) a && forallb (fun y => existsb (pv_eqb y) a) b.
Fixpoint list_eqb (a b : list pv) := match a, b with [], [] => true | x :: t, y :: u => pv_eqb x y && list_eqb t u | _, _ => false end.
Definition err_eqb (a b : err) := match a, b with EValue, EValue | EType, EType | EAttr, EAttr | EOther, EOther => true | _, _ => false end.
Definition presult_eqb (a b : presult) := match a, b with
  | Parsed o s, Parsed o' s' => str_eqb o o' && str_eqb s s' | NoParse, NoParse => true | PErr, PErr => true | _, _ => false end.

(* (suffix, name), observed *)
Definition chk_parse (c : (str * str) * option presult) :=
  match snd c with Some r => presult_eqb r (parse_feature_name [fst (fst c)] (snd (fst c))) | None => false end.
(* property-level classification of a parse case, all in Coq: the name is a rendering of well-formed pieces *)
Definition res_set_eqb (a b : res (list pv)) := match a, b with Ok x, Ok y => set_eqb x y | Err e, Err e' => err_eqb e e' | _, _ => false end.
Definition chk_infeat (c : pv * res (list pv)) := res_set_eqb (snd c) (get_in_features (fst c)).
(* group index, name, group options, context options *)
Definition chk_inputs (c : (nat * str * list (str * pv) * list (str * pv)) * res (list pv)) :=
  match c with ((gi, name, gr, cx), obs) => res_set_eqb obs (input_features (grp_of gi) name gr cx) end.
(* known-defect domain (unhashable list / set under a mapped key -> TypeError): the repaired behaviour, reading
   them like a frozenset, is accepted as well *)
Definition fix_pv (v : pv) : pv := match v with PList l | PSet false l => PSet true (dedup l) | _ => v end.
Definition fix_opts (d : list (str * pv)) := map (fun p => (fst p, fix_pv (snd p))) d.
Definition res_bool_eqb (a b : res bool) := match a, b with Ok x, Ok y => Bool.eqb x y | Err e, Err e' => err_eqb e e' | _, _ => false end.
Definition chk_match (c : (nat * str * list (str * pv) * list (str * pv)) * res bool) :=
  match c with ((gi, name, gr, cx), obs) =>
    let m := match_criteria (grp_of gi) name gr cx in
    res_bool_eqb obs m
    || match m with Err EType => res_bool_eqb obs (match_criteria (grp_of gi) name (fix_opts gr) (fix_opts cx)) | _ => false end end.
Definition chk_op (c : (nat * str * list (str * pv) * list (str * pv)) * res pv) :=
  match c with ((gi, name, gr, cx), obs) =>
    match obs, extract_op (grp_of gi) name gr cx with
    | Ok a, Ok b => pv_eqb a b | Err e, Err e' => err_eqb e e' | _, _ => false end end.
(* document, observed features (None = rejected) *)
(* a schema-invalid document that the faithful model accepts (known-defect domain) may also be rejected (repaired) *)
Definition chk_json (c : json * option (list pv)) :=
  match snd c, load (fst c) with
  | Some a, Ok b => list_eqb a b
  | None, Err _ => true
  | None, Ok _ => negb (doc_valid (fst c))
  | Some _, Err _ => false
  end.
(* classification used for the schema property: invalid but accepted by the model *)
Definition invalid_accepted (c : json * option (list pv)) := negb (doc_valid (fst c)) && accepted (fst c).
Definition chk_doc_invalid (c : json * option (list (nat * pv))) := negb (doc_valid (fst c)).

(* end to end: the universe of the two built-in groups over the source columns a, b *)
Definition uni := [g_aggr; g_mv].
(* "constant" needs a constant_value option, which is outside the model: it counts as not computable here *)
Definition valid_op (x : nat * pv) := match x with (gi, PStr s) => existsb (str_eqb s) (g_vocab (nth gi uni g_aggr)) && negb (str_eqb s (lit "constant")) | _ => false end.
Definition is_col (f : pv) := match f with PFeat (PStr s) _ _ => existsb (str_eqb s) [lit "a"; lit "b"] | _ => false end.
Definition predict (f : pv) : option (list (nat * pv)) :=
  match resolve_chain uni 8 f with
  | WEnd ops last => if forallb valid_op ops && is_col last then Some (rev ops) else None
  | WStuck _ _ => None
  end.
Definition trace_eqb (a b : list (nat * pv)) := list_eqb (map snd a) (map snd b) && list_eqb (map (fun x => PInt (Z.of_nat (fst x))) a) (map (fun x => PInt (Z.of_nat (fst x))) b).
Definition opt_trace_eqb (a b : option (list (nat * pv))) := match a, b with Some x, Some y => trace_eqb x y | None, None => true | _, _ => false end.
(* one feature, observed trace (None = rejected) *)
Definition chk_run (c : pv * option (list (nat * pv))) := opt_trace_eqb (snd c) (predict (fst c)).
(* a JSON document holding one feature item *)
Definition predict_json (j : json) := match load j with Ok [f] => predict f | _ => None end.
Definition chk_run_json (c : json * option (list (nat * pv))) :=
  opt_trace_eqb (snd c) (predict_json (fst c))
  || (negb (doc_valid (fst c)) && match snd c with None => true | Some _ => false end).
(* sub-columns: the source group supports a, b and the two-column feature m *)
Definition sup := [lit "a"; lit "b"; lit "m"].
Definition is_col_m (f : pv) := match f with PFeat (PStr s) _ _ => existsb (str_eqb s) [lit "a"; lit "b"; lit "m~0"; lit "m~1"] | _ => false end.
Definition predict_m (f : pv) : option (list (nat * pv)) :=
  match resolve_chain uni 8 f with
  | WEnd ops last => if forallb valid_op ops && is_col_m last then Some (rev ops) else None
  | WStuck _ _ => None
  end.
Definition predict_m_json (j : json) := match load j with Ok [f] => predict_m f | _ => None end.
(* (name, options feature, document), expected trace: the name is claimed by the producer of m as well; the other two
   notations resolve to the trace *)
Definition chk_subcol (c : (str * pv * json) * list (nat * pv)) :=
  match c with ((n, o, j), t) =>
    root_claims sup n && opt_trace_eqb (predict_m (feat n)) (Some t)
    && opt_trace_eqb (predict_m o) (Some t) && opt_trace_eqb (predict_m_json j) (Some t)
    && match o with PFeat (PStr x) _ _ => negb (root_claims sup x) | _ => false end end.
(* name, (observed base, observed resolve as a set over the given columns, observed default-matcher verdict) *)
Definition str_set_eqb (a b : list str) := forallb (fun x => existsb (str_eqb x) b) a && forallb (fun y => existsb (str_eqb y) a) b.
Definition chk_columns (c : (str * list str) * (str * list str * bool)) :=
  match c with ((n, cols), (b, r, m)) =>
    str_eqb b (column_base n) && str_set_eqb r (resolve_multi_column n cols) && Bool.eqb m (root_claims sup n) end.
(* the three notations of one chain: name, options, JSON; expected trace in application order *)
Definition chk_triple (c : (pv * pv * json) * list (nat * pv)) :=
  match c with ((n, o, j), t) =>
    opt_trace_eqb (predict n) (Some t) && opt_trace_eqb (predict o) (Some t) && opt_trace_eqb (predict_json j) (Some t) end.
(* the pair (planned inputs, columns read): group index, name, group options, context options; observed input_features and
   observed _extract_source_features (names).  Both equal the model, and the observed pair satisfies the statement of
   C16_calc_reads_what_was_planned *)
Definition pair_ok (pl ca : res (list pv)) := match pl with
  | Ok fs => match ca with Ok ns => set_eqb ns (names_of fs) | Err _ => false end | Err _ => true end.
Definition chk_pair (c : (nat * str * list (str * pv) * list (str * pv)) * (res (list pv) * res (list pv))) :=
  match c with ((gi, name, gr, cx), (pl, ca)) =>
    res_set_eqb pl (plan_sources (grp_of gi) name gr cx) && res_set_eqb ca (calc_sources (grp_of gi) name gr cx)
    && pair_ok pl ca && pair_ok (plan_sources (grp_of gi) name gr cx) (calc_sources (grp_of gi) name gr cx) end.
(* end to end: the requested feature (as run_all got it), the group of its last link, the name of the feature that was
   computed immediately before it (= the input the planner resolved), the column identified from the VALUE *)
Definition chk_src_run (c : (nat * pv) * (str * str)) :=
  match c with ((gi, PFeat (PStr name) gr cx), (planned, read)) =>
    res_set_eqb (Ok [feat planned]) (plan_sources (nth gi uni g_aggr) name gr cx)
    && match calc_column (nth gi uni g_aggr) name gr cx with Ok (PStr r) => str_eqb r read | _ => false end
  | _ => false end.
(* options notation with an unhashable spelling: the model is stuck on TypeError *)
Definition chk_unhashable (c : pv * bool) :=
  match resolve_chain uni 8 (fst c) with WStuck _ (SErr EType) => snd c | _ => negb (snd c) end.
"""


def cqs(s: str) -> str:
    """Coq term of type `str` (list ascii) for an 8-bit Python string; printable runs as `lit "..."`."""
    parts: List[str] = []
    run = ""
    for ch in s:
        o = ord(ch)
        if 32 <= o < 127:
            run += ch
        else:
            if o > 255:
                raise ValueError("character outside the modelled 8-bit range")
            if run:
                parts.append("lit " + cq_str(run))
                run = ""
            parts.append(f"[ascii_of_nat {o}]")
    if run or not parts:
        parts.append("lit " + cq_str(run))
    return "(" + " ++ ".join(parts) + ")"


def cq_z(n: int) -> str:
    return f"({n})%Z"


# pv encoding (JSON friendly): None / bool / int / str, ["L", xs], ["S", xs] (set), ["F", xs] (frozenset),
# ["D", [[k, v], ...]], ["Feat", name, group_pairs, context_pairs]
def cq_pairs(pairs: Sequence[Sequence[Any]]) -> str:
    return cq_list(f"({cqs(k)}, {cq_pv(v)})" for k, v in pairs)


def cq_pv(v: Any) -> str:
    if v is None:
        return "PNone"
    if isinstance(v, bool):
        return f"(PBool {cq_bool(v)})"
    if isinstance(v, int):
        return f"(PInt {cq_z(v)})"
    if isinstance(v, str):
        return f"(PStr {cqs(v)})"
    tag = v[0]
    if tag == "L":
        return f"(PList {cq_list(cq_pv(x) for x in v[1])})"
    if tag == "S":
        return f"(PSet false {cq_list(cq_pv(x) for x in v[1])})"
    if tag == "F":
        return f"(PSet true {cq_list(cq_pv(x) for x in v[1])})"
    if tag == "D":
        return f"(PDict {cq_pairs(v[1])})"
    if tag == "Feat":
        return f"(PFeat {cq_pv(v[1])} {cq_pairs(v[2])} {cq_pairs(v[3])})"
    raise ValueError(f"value not modelled: {v!r}")


def cq_json(j: Any) -> str:
    if j is None:
        return "JNull"
    if isinstance(j, bool):
        return f"(JBool {cq_bool(j)})"
    if isinstance(j, int):
        return f"(JNum {cq_z(j)})"
    if isinstance(j, str):
        return f"(JStr {cqs(j)})"
    if isinstance(j, list):
        return f"(JArr {cq_list(cq_json(x) for x in j)})"
    if isinstance(j, dict):
        return "(JObj " + cq_list(f"({cqs(k)}, {cq_json(v)})" for k, v in j.items()) + ")"
    raise ValueError(f"json value not modelled: {j!r}")


def to_py(v: Any) -> Any:
    from mloda.user import Feature, Options
    if v is None or isinstance(v, (bool, int, str)):
        return v
    tag = v[0]
    if tag == "L":
        return [to_py(x) for x in v[1]]
    if tag == "S":
        return {to_py(x) for x in v[1]}
    if tag == "F":
        return frozenset(to_py(x) for x in v[1])
    if tag == "D":
        return {k: to_py(x) for k, x in v[1]}
    if tag == "Feat":
        return Feature(to_py(v[1]), Options(group={k: to_py(x) for k, x in v[2]}, context={k: to_py(x) for k, x in v[3]}))
    raise ValueError(v)


def _key(k: Any) -> str:
    return k.value if isinstance(k, Enum) else k


def from_py(o: Any) -> Any:
    from mloda.user import Feature
    from mloda.core.abstract_plugins.components.feature_name import FeatureName
    if o is None or isinstance(o, (bool, int)):
        return o
    if isinstance(o, Enum):
        return o.value
    if isinstance(o, str):
        return o
    if isinstance(o, FeatureName):
        return from_py(o.name)
    if isinstance(o, Feature):
        return ["Feat", from_py(o.name), sorted([[_key(k), from_py(x)] for k, x in o.options.group.items()], key=lambda p: p[0]),
                sorted([[_key(k), from_py(x)] for k, x in o.options.context.items()], key=lambda p: p[0])]
    if isinstance(o, list):
        return ["L", [from_py(x) for x in o]]
    if isinstance(o, frozenset):
        return ["F", sorted((from_py(x) for x in o), key=lambda x: json.dumps(x, sort_keys=True))]
    if isinstance(o, set):
        return ["S", sorted((from_py(x) for x in o), key=lambda x: json.dumps(x, sort_keys=True))]
    if isinstance(o, dict):
        return ["D", [[_key(k), from_py(x)] for k, x in o.items()]]
    raise ValueError(f"cannot canonicalise {type(o).__name__}")


def err_kind(e: BaseException) -> str:
    if isinstance(e, ValueError):
        return "EValue"
    if isinstance(e, TypeError):
        return "EType"
    if isinstance(e, AttributeError):
        return "EAttr"
    return "EOther"


def cq_res(obs: Any, ok_printer: Any) -> str:
    """obs = ["ok", value] | ["err", kind]"""
    return f"(Ok {ok_printer(obs[1])})" if obs[0] == "ok" else f"(Err {obs[1]})"


# ------------------------------------------------------------------------------------------------------------
# group universe (python side mirrors EXTRA)
# ------------------------------------------------------------------------------------------------------------
GROUP_SPECS = [
    {"suf": "aggr", "key": "aggregation_type", "vocab": ["sum", "min", "max", "avg", "mean", "count", "std", "var", "median"],
     "strict": True, "defaults": [], "min": 1, "max": 1, "real": "aggr"},
    {"suf": "imputed", "key": "imputation_method", "vocab": ["mean", "median", "mode", "constant", "ffill", "bfill"],
     "strict": False, "defaults": ["constant_value", "group_by_features"], "min": 1, "max": 1, "real": "mv"},
    {"suf": "distance", "key": "distance_type", "vocab": ["euclid", "geo"], "strict": True, "defaults": [], "min": 2, "max": 2},
    {"suf": "centrality", "key": "centrality_type", "vocab": ["deg", "btw"], "strict": False, "defaults": ["damping"], "min": 1,
     "max": None},
    {"suf": "x_aggr", "key": "xop", "vocab": ["p", "q"], "strict": True, "defaults": [], "min": 1, "max": 3},
]
_groups: List[Any] = []


def groups() -> List[Any]:
    """Real classes: the two built-in pandas groups and three generated FeatureChainParserMixin groups."""
    if _groups:
        return _groups
    from mloda.provider import FeatureGroup, FeatureChainParserMixin
    from mloda_plugins.feature_group.experimental.default_options_key import DefaultOptionKeys as K
    from mloda_plugins.feature_group.experimental.aggregated_feature_group.pandas import PandasAggregatedFeatureGroup
    from mloda_plugins.feature_group.experimental.data_quality.missing_value.pandas import PandasMissingValueFeatureGroup
    for sp in GROUP_SPECS:
        if sp.get("real") == "aggr":
            _groups.append(PandasAggregatedFeatureGroup)
        elif sp.get("real") == "mv":
            _groups.append(PandasMissingValueFeatureGroup)
        else:
            pm: Dict[Any, Any] = {sp["key"]: {**{v: "doc" for v in sp["vocab"]}, K.context: True, K.strict_validation: sp["strict"]},
                                  K.in_features: {"explanation": "source", K.context: True}}
            for d in sp["defaults"]:
                pm[d] = {"explanation": "optional", K.context: True, K.default: None}
            cls = type("C16G_" + sp["suf"], (FeatureChainParserMixin, FeatureGroup),
                       {"PREFIX_PATTERN": r".*__([\w]+)_" + sp["suf"] + "$", "PROPERTY_MAPPING": pm,
                        "MIN_IN_FEATURES": sp["min"], "MAX_IN_FEATURES": sp["max"]})
            _groups.append(cls)
    return _groups


def pattern_of(suf: str) -> str:
    return r".*__([\w]+)_" + suf + "$"


# ------------------------------------------------------------------------------------------------------------
# name generators
# ------------------------------------------------------------------------------------------------------------
ATOMS = ["a", "b", "b1", "x_y", "A", "a~0", "p&q", "a b", "a-b", "_a", "a_", "a&b&c", "a.b", "0"]
WORDOPS = ["sum", "mean", "max", "x", "x_y", "a1", "sum_7", "Z", "count", "ffill"]
BADOPS = ["", "_", "s-m", "s m", "_x", "x_", "x__y", "a&b", "x~1", "__", "x."]
SUFS = [g["suf"] for g in GROUP_SPECS]
FIXED_MALFORMED = ["a__b___aggr", "a___aggr", "a____aggr", "a_____aggr", "____aggr", "__", "", "_aggr", "__aggr", "a__aggr",
                   "a__sum_aggr_", "a__sum__aggr", "a__sum_aggr__", "a__sum_aggr__sum", "__sum_aggr", "sum_aggr", "a_sum_aggr",
                   "a__sum_aggr\n", "a__sum_aggr\n\n", "a\nb__sum_aggr", "a__su\nm_aggr", "\na__sum_aggr", "a__sum_aggr ",
                   "a__sum_aggrx", "a__sum_AGGR", "a___sum_aggr", "___x_aggr", "a__x_aggr_aggr", "a___aggr_aggr", "a__sum_imputed",
                   "a__mean_imputed__aggr", "a__sum_aggr~0", "a&__sum_aggr", "&__sum_aggr", "a&&b__sum_aggr", "a__sum_x_aggr",
                   "a__p_x_aggr", "a____x_aggr", "a__b___x_aggr", "a__sum_aggr__", "a__sum_aggr___", "_", "___"]


def wf_chain(rng: random.Random, depth: int) -> Tuple[str, List[Tuple[str, str]]]:
    name = rng.choice(ATOMS)
    ops = []
    for _ in range(depth):
        op, suf = rng.choice(WORDOPS), rng.choice(SUFS)
        ops.append((op, suf))
        name += "__" + op + "_" + suf
    return name, ops


def malformed(rng: random.Random) -> str:
    name, ops = wf_chain(rng, rng.choice([1, 1, 2, 3]))
    kind = rng.randrange(12)
    if kind == 0:
        for _ in range(rng.choice([1, 1, 2, 3])):
            i = rng.randrange(len(name) + 1)
            name = name[:i] + "_" + name[i:]
    elif kind == 1:
        i = rng.randrange(len(name))
        name = name[:i] + name[i + 1:]
    elif kind == 2:
        op, suf = ops[-1]
        name = name[: len(name) - len(op + "_" + suf)] + rng.choice(BADOPS) + "_" + suf
    elif kind == 3:
        name = "__" + name.split("__", 1)[1]
    elif kind == 4:
        name = name.replace("__", "_")
    elif kind == 5:
        name = name + rng.choice(["\n", " ", "x", "_", "\n\n", "~0", "__", "\t"])
    elif kind == 6:
        i = rng.randrange(len(name) + 1)
        name = name[:i] + "\n" + name[i:]
    elif kind == 7:
        name = name[: name.rfind("_") + 1] + rng.choice(["foo", "aggr2", "", "agg", "Aggr"])
    elif kind == 8:
        name = "".join(rng.choice("ab__-&~ \n") for _ in range(rng.randrange(0, 9))) + rng.choice(["_aggr", "__aggr", "_x_aggr", ""])
    elif kind == 9:
        i = name.rfind("__")
        name = name[:i] + rng.choice(["_", "___", "____", "_ _", "__&__"]) + name[i + 2:]
    elif kind == 10:
        name = name.replace("__", rng.choice(["__", "___", "____"]), 1)
    else:
        name = rng.choice(FIXED_MALFORMED)
    return name


def small_strings(alphabet: str, max_len: int) -> List[str]:
    out = [""]
    for n in range(1, max_len + 1):
        out += ["".join(t) for t in itertools.product(alphabet, repeat=n)]
    return out


# ------------------------------------------------------------------------------------------------------------
# unit observers
# ------------------------------------------------------------------------------------------------------------
def obs_parse(name: str, suf: str) -> Any:
    from mloda.provider import FeatureChainParser
    try:
        op, src = FeatureChainParser.parse_feature_name(name, [pattern_of(suf)])
    except ValueError:
        return ["E"]
    except Exception as e:  # noqa: BLE001
        return ["X", type(e).__name__]
    if op is None and src is None:
        return ["N"]
    if isinstance(op, str) and isinstance(src, str):
        return ["P", op, src]
    return ["X", "shape"]


def parse_term(c: dict) -> str:
    o = c["obs"]
    obs = {"E": "(Some PErr)", "N": "(Some NoParse)", "X": "None"}.get(o[0]) or f"(Some (Parsed {cqs(o[1])} {cqs(o[2])}))"
    return f"(({cqs(c['suf'])}, {cqs(c['name'])}), {obs})"


def py_render_ok(name: str, suf: str) -> Optional[Tuple[str, str]]:
    """Independent of mloda and of the Coq model: is `name` the rendering src__op_suf of well-formed pieces?
    Returns the (op, src) every reading must give, or None.  (Spec/ChainName.v wf_src / wf_op, in Python.)"""
    tail = "_" + suf
    if not name.endswith(tail):
        return None
    body = name[: -len(tail)]
    i = body.rfind("__")
    if i < 0:
        return None
    src, op = body[:i], body[i + 2:]
    word = all((ch.isascii() and (ch.isalnum() or ch == "_")) for ch in op)
    if not src or "\n" in src or not op or not word or "__" in ("_" + op + "_"):
        return None
    return op, src


def infeat_values(rng: random.Random, n: int) -> List[Any]:
    names = ["a", "b", "a b", " a", "a ", "", "a__sum_aggr", "x,y"]
    feats = [["Feat", "a", [], []], ["Feat", "b", [], []], ["Feat", "a", [["k", 1]], []], ["Feat", "a", [], [["k", 1]]],
             ["Feat", "a", [["k", ["F", ["u", "v"]]]], []], ["Feat", "a", [["k", ["F", ["v", "u"]]]], []]]
    fixed: List[Any] = [None, "", "a", "a,b", " a , b ", "a,", ",", "a,,b", " a", "a\t,\x1fb", "a,a", ["L", []], ["L", ["a"]],
                        ["L", ["a", "b"]], ["L", ["a", "a"]], ["S", ["a"]], ["S", []], ["F", ["a"]], ["F", []], ["F", ["a", "b"]],
                        feats[0], ["L", [feats[0], "a"]], ["L", [feats[2], "a"]], ["L", [feats[4], feats[5]]], ["L", [1]],
                        5, 0, True, False, ["D", [["a", 1]]], ["D", []], ["L", [None]], ["L", ["a", 5]], ["F", [feats[0], feats[1]]],
                        ["L", [["L", ["a"]]]], ["F", [feats[2], feats[3]]]]
    out = list(fixed)
    while len(out) < n:
        k = rng.randrange(6)
        items = [rng.choice(names + feats) for _ in range(rng.randrange(0, 4))]
        if k == 0:
            out.append(",".join(rng.choice(names[:6]) for _ in range(rng.randrange(1, 4))))
        elif k == 1:
            out.append(["L", items])
        elif k in (2, 3):
            seen, uniq = set(), []
            for it in items:
                key = json.dumps(it)
                if key not in seen:
                    seen.add(key)
                    uniq.append(it)
            # Python sets dedup equal Features; keep generated sets duplicate-free up to Feature equality
            uniq = [u for i, u in enumerate(uniq) if not any(_feat_eq(u, w) for w in uniq[:i])]
            out.append(["S" if k == 2 else "F", uniq])
        elif k == 4:
            out.append(rng.choice(feats))
        else:
            out.append(rng.choice(names))
    return out


def _feat_eq(a: Any, b: Any) -> bool:
    try:
        return bool(to_py(a) == to_py(b))
    except Exception:  # noqa: BLE001
        return False


def obs_infeat(v: Any) -> Any:
    from mloda.user import Options
    try:
        r = Options(context={"in_features": to_py(v)}).get_in_features()
        return ["ok", [from_py(f) for f in r]]
    except Exception as e:  # noqa: BLE001
        return ["err", err_kind(e)]


def cq_pvlist(l: Sequence[Any]) -> str:
    return cq_list(cq_pv(x) for x in l)


def opt_pairs(rng: random.Random, gi: int, mode: str) -> Tuple[List[Any], List[Any]]:
    """group / context option pairs for a feature of group gi; mode picks the in_features spelling and op validity"""
    sp = GROUP_SPECS[gi]
    pairs: List[Any] = []
    r = rng.random()
    if r < 0.75:
        pairs.append([sp["key"], rng.choice(sp["vocab"])])
    elif r < 0.85:
        pairs.append([sp["key"], rng.choice(["bogus", "", 5, None, ["F", [sp["vocab"][0]]], ["F", ["bogus"]], ["L", [sp["vocab"][0]]]])])
    inf = rng.choice([None, "a", "a", "a,b", "a&b", ["L", ["a"]], ["S", ["a"]], ["F", ["a"]], ["F", ["a", "b"]], ["F", ["a", "b", "c", "d"]],
                      ["Feat", "a", [], []], ["F", [["Feat", "a", [], []]]], ["Feat", "a__mean_imputed", [], [["k", "v"]]], "",
                      ["F", []], 5, ["D", [["a", 1]]], ["L", ["a", "b"]], ["F", [["Feat", "a", [], []], ["Feat", "b", [], []]]]])
    if mode != "noinf" and inf is not None:
        pairs.append(["in_features", inf])
    for d in sp["defaults"]:
        if rng.random() < 0.15:
            pairs.append([d, rng.choice([1, "v", ["L", ["g"]], ["F", ["g"]]])])
    for other in GROUP_SPECS:
        if other is not sp and rng.random() < 0.08:
            pairs.append([other["key"], rng.choice(other["vocab"])])
    rng.shuffle(pairs)
    cut = rng.randrange(len(pairs) + 1) if rng.random() < 0.4 else (0 if rng.random() < 0.7 else len(pairs))
    return pairs[:cut], pairs[cut:]


def feature_cases(rng: random.Random, n: int) -> List[dict]:
    """(group, name, options): names are placeholders, well-formed names of this or another group, or malformed"""
    out = []
    for _ in range(n):
        gi = rng.randrange(len(GROUP_SPECS))
        sp = GROUP_SPECS[gi]
        r = rng.random()
        if r < 0.3:
            name = rng.choice(["ph", "x", "my_feature", "p__q", "ph~1", "a&b", "ph__", "a_b"])
        elif r < 0.65:
            src = rng.choice(ATOMS + ["a&b", "a&b&c&d", "a&a", "a__mean_imputed", "&", "a&"])
            op = rng.choice(sp["vocab"] + WORDOPS[:4])
            name = src + "__" + op + "_" + (sp["suf"] if rng.random() < 0.85 else rng.choice(SUFS))
        else:
            name = malformed(rng)
        gr, cx = opt_pairs(rng, gi, "any")
        out.append({"gi": gi, "name": name, "group": gr, "context": cx})
    return out


def _real_options(c: dict) -> Any:
    from mloda.user import Options
    return Options(group={k: to_py(v) for k, v in c["group"]}, context={k: to_py(v) for k, v in c["context"]})


def obs_inputs(c: dict) -> Any:
    from mloda.core.abstract_plugins.components.feature_name import FeatureName
    try:
        opts = _real_options(c)
    except Exception as e:  # noqa: BLE001
        return ["skip", err_kind(e)]
    try:
        r = groups()[c["gi"]]().input_features(opts, FeatureName(c["name"]))
        return ["ok", [from_py(f) for f in (r or [])]]
    except Exception as e:  # noqa: BLE001
        return ["err", err_kind(e)]


def obs_match(c: dict) -> Any:
    try:
        opts = _real_options(c)
    except Exception as e:  # noqa: BLE001
        return ["skip", err_kind(e)]
    try:
        return ["ok", bool(groups()[c["gi"]].match_feature_group_criteria(c["name"], opts))]
    except Exception as e:  # noqa: BLE001
        return ["err", err_kind(e)]


def obs_op(c: dict) -> Any:
    from mloda.user import Feature
    try:
        f = Feature(c["name"], _real_options(c))
    except Exception as e:  # noqa: BLE001
        return ["skip", err_kind(e)]
    cls = groups()[c["gi"]]
    v = f.options.get(GROUP_SPECS[c["gi"]]["key"])
    if c["gi"] == 0 and not (v is None or isinstance(v, (str, int, bool))):
        return ["skip", "str() of a container is not modelled"]
    try:
        r = cls._extract_aggregation_type(f) if c["gi"] == 0 else cls._extract_imputation_method(f)
        return ["ok", from_py(r)]
    except Exception as e:  # noqa: BLE001
        return ["err", err_kind(e)]


def obs_calc(c: dict) -> Any:
    """FeatureChainParserMixin._extract_source_features on the real class: the names the calculation reads"""
    from mloda.user import Feature
    try:
        f = Feature(c["name"], _real_options(c))
    except Exception as e:  # noqa: BLE001
        return ["skip", err_kind(e)]
    try:
        r = groups()[c["gi"]]._extract_source_features(f)
        return ["ok", sorted({from_py(x) for x in r})]
    except Exception as e:  # noqa: BLE001
        return ["err", err_kind(e)]


def feature_term(c: dict, obs: Any, printer: Any) -> str:
    return (f"(({cq_nat(c['gi'])}, {cqs(c['name'])}, {cq_pairs(c['group'])}, {cq_pairs(c['context'])}), "
            f"{cq_res(obs, printer)})")


# ------------------------------------------------------------------------------------------------------------
# JSON documents
# ------------------------------------------------------------------------------------------------------------
SCALARS = ["v", "", 0, 5, -3, True, False, None]


def rand_options(rng: random.Random, depth: int = 0) -> Dict[str, Any]:
    d: Dict[str, Any] = {}
    for _ in range(rng.randrange(0, 3)):
        k = rng.choice(["k", "aggregation_type", "imputation_method", "w", "nested"])
        r = rng.random()
        if r < 0.6:
            d[k] = rng.choice(SCALARS + ["sum", "mean"])
        elif r < 0.75:
            d[k] = [rng.choice(SCALARS[:5]) for _ in range(rng.randrange(0, 3))]
        elif depth < 2:
            d[k] = rand_options(rng, depth + 1)
    if depth < 3 and rng.random() < (0.45 if depth == 0 else 0.3):
        d["in_features"] = rand_nested(rng, depth + 1)
    return d


def rand_nested(rng: random.Random, depth: int) -> Any:
    """value of an `in_features` key inside options: usually a nested feature description"""
    r = rng.random()
    if r < 0.12:
        return rng.choice(["a", ["a"], ["a", "b"], 5, None, [], {}, True])
    d: Dict[str, Any] = {}
    r = rng.random()
    if r < 0.85:
        d["name"] = rng.choice(["y", "z", "a__mean_imputed", "ph"])
    elif r < 0.93:
        d["name"] = rng.choice(["", None, 0, 5, False, ["n"]])
    if rng.random() < 0.7:
        d["options"] = rand_options(rng, depth) if rng.random() < 0.9 else rng.choice([5, "s", None, ["a"]])
    r = rng.random()
    if r < 0.5:
        d["in_features"] = rng.choice([["a"], ["a", "b"], [], "a", ["a", "b", "c"], 5, None, [5], [None], True, [["a"]]])
    elif r < 0.7 and depth < 3:
        d["in_features"] = rand_nested(rng, depth + 1)
    if rng.random() < 0.1:
        d[rng.choice(["extra", "column_index", "group_options"])] = 1
    return d


def rand_item(rng: random.Random) -> Any:
    r = rng.random()
    if r < 0.12:
        return rng.choice(["a", "a__sum_aggr", "", "x y"])
    if r < 0.18:
        return rng.choice([5, None, True, ["a"], 0, [], False])
    d: Dict[str, Any] = {}
    r = rng.random()
    if r < 0.85:
        d["name"] = rng.choice(["x", "a__sum_aggr", "f", "a__mean_imputed__max_aggr", ""])
    elif r < 0.95:
        d["name"] = rng.choice([5, None, True, False, 0, ["n"], {"n": 1}, -7])
    branch = rng.random()
    if branch < 0.45:
        if rng.random() < 0.8:
            d["options"] = rand_options(rng) if rng.random() < 0.85 else rng.choice([5, "s", None, ["a"], True, 0, "", []])
    elif branch < 0.85:
        for k in ("group_options", "context_options"):
            r = rng.random()
            if r < 0.55:
                d[k] = {kk: rng.choice(SCALARS + ["sum"]) for kk in rng.sample(["k", "aggregation_type", "w", "in_features", "u"],
                                                                               rng.randrange(0, 3))}
            elif r < 0.7:
                d[k] = rng.choice([[], "", 0, False, None, [1], "s", 5, True])
        if rng.random() < 0.3:
            d["options"] = rng.choice([{}, {"k": 1}, {"group_by_features": ["b"]}, 5, "s", [], None])
    if rng.random() < 0.55:
        r = rng.random()
        if r < 0.6:
            d["in_features"] = rng.choice([["a"], ["a", "b"], ["a", "a"], ["b", "a"], []])
        else:
            d["in_features"] = rng.choice(["a", "ab", "", {"a": 1}, {}, 5, 0, True, False, None, [1, 2], [None], [["a"]], [{"a": 1}],
                                           ["a", 5], [True]])
    if rng.random() < 0.25:
        scal_name = not isinstance(d.get("name"), (list, dict))
        d["column_index"] = rng.choice([0, 1, 12, -1] if rng.random() < 0.6 or not scal_name else ["y", True, False, None, ""])
        if not scal_name:
            d["column_index"] = None
    if rng.random() < 0.08:
        d[rng.choice(["foo", "propagate_context_keys", "Name", "domain"])] = rng.choice([1, ["k"], "v"])
    items = list(d.items())
    rng.shuffle(items)
    return dict(items)


def rand_doc(rng: random.Random) -> Any:
    r = rng.random()
    if r < 0.06:
        return rng.choice([{"name": "x"}, "a", 5, None, True, {}])
    return [rand_item(rng) for _ in range(rng.choice([1, 1, 1, 2, 3, 0]))]


FIXED_DOCS: List[Any] = [
    [], ["a"], [{"name": "x"}], [{"name": "x", "in_features": ["a"], "context_options": {"aggregation_type": "sum"}}],
    [{"name": "x", "in_features": "ab"}], [{"name": "x", "in_features": {"a": 1}}], [{"name": 5}], [{"name": "x", "column_index": True}],
    [{"name": "x", "options": {"a": 1}, "group_options": {}}], [{"name": "x", "options": {"a": 1}, "group_options": {"b": 1}}],
    [{"name": "x", "group_options": {"a": 1}, "context_options": {"a": 2}}],
    [{"name": "x", "context_options": {"in_features": "q"}, "in_features": ["a"]}],
    [{"name": "x", "options": {"in_features": "q"}, "in_features": ["a"]}],
    [{"name": "x", "options": {"in_features": {"name": "y", "options": {"k": {"in_features": {"name": "z"}}}, "in_features": ["a"]}}}],
    [{"name": "x", "options": {"in_features": {"name": "y", "in_features": {"name": "z", "in_features": ["a", "b"]}}}}],
    [{"name": "x", "options": {"in_features": {"nam": "y"}}}], [{"name": "x", "propagate_context_keys": ["a"]}],
    [{"name": "x", "group_options": []}], [{"name": "x", "context_options": [1], "in_features": ["a"]}],
    [{"name": "x", "column_index": 3, "in_features": ["a"], "options": {"k": "v"}}],
]


def obs_json(doc: Any) -> Any:
    import mloda.user  # noqa: F401  (must be imported before the loader module: circular import otherwise)
    from mloda.core.api.feature_config.loader import load_features_from_config
    try:
        fs = load_features_from_config(json.dumps(doc))
    except Exception as e:  # noqa: BLE001
        return ["err", err_kind(e), type(e).__name__]
    try:
        return ["ok", [from_py(f) for f in fs]]
    except ValueError as e:
        return ["unmodelled", str(e)]


def json_term(doc: Any, obs: Any) -> str:
    o = f"(Some {cq_pvlist(obs[1])})" if obs[0] == "ok" else "None"
    return f"({cq_json(doc)}, {o})"


# ------------------------------------------------------------------------------------------------------------
# end to end
# ------------------------------------------------------------------------------------------------------------
DATA = {"a": [1.0, None, 3.0, 4.0, None, 3.0], "b": [2.0, 5.0, None, 1.0, 7.0, 6.0]}
# the source group also produces the two-column feature "m" (columns m~0, m~1)
MULTI = {"m~0": [1.0, 2.0, None, 4.0, 5.0, 6.0], "m~1": [10.0, None, 30.0, 40.0, 50.0, 60.0]}
SUPPORTED = ["a", "b", "m"]
FWS = ["PandasDataFrame", "PyArrowTable"]
AGGR_ORACLE = ["sum", "min", "max", "avg", "mean", "count"]
MV_ORACLE = ["mean", "ffill", "bfill"]
MV_E2E = ["mean", "median", "mode", "ffill", "bfill"]     # "constant" needs constant_value, which a name cannot carry
PROTECT = ["aggregation_type", "imputation_method", "constant_value"]
_env: Dict[str, Any] = {}
RUN_TIMEOUT_S = 20


class RunTimeout(BaseException):
    """raised by the alarm handler; BaseException so that mloda's `except Exception` blocks do not swallow it"""



def env(fw: str) -> Any:
    if fw in _env:
        return _env[fw]
    import pandas as pd
    import pyarrow as pa
    from mloda.provider import FeatureGroup, DataCreator
    from mloda.user import PluginCollector
    if fw == "PandasDataFrame":
        from mloda_plugins.compute_framework.base_implementations.pandas.dataframe import PandasDataFrame as CF
        from mloda_plugins.feature_group.experimental.aggregated_feature_group.pandas import PandasAggregatedFeatureGroup as A
        from mloda_plugins.feature_group.experimental.data_quality.missing_value.pandas import PandasMissingValueFeatureGroup as M
    else:
        from mloda_plugins.compute_framework.base_implementations.pyarrow.table import PyArrowTable as CF  # type: ignore[assignment]
        from mloda_plugins.feature_group.experimental.aggregated_feature_group.pyarrow import PyArrowAggregatedFeatureGroup as A  # type: ignore[assignment]
        from mloda_plugins.feature_group.experimental.data_quality.missing_value.pyarrow import PyArrowMissingValueFeatureGroup as M  # type: ignore[assignment]

    def input_data(cls: Any) -> Any:
        return DataCreator(set(SUPPORTED))

    def calculate_feature(cls: Any, data: Any, features: Any) -> Any:
        cols = {**DATA, **MULTI}
        return pd.DataFrame(cols) if fw == "PandasDataFrame" else pa.table(cols)

    def compute_framework_rule(cls: Any) -> Any:
        return {CF}

    src = type("C16Src_" + fw, (FeatureGroup,), {"input_data": classmethod(input_data),
                                                  "calculate_feature": classmethod(calculate_feature),
                                                  "compute_framework_rule": classmethod(compute_framework_rule)})
    _env[fw] = {"cf": CF, "pc": PluginCollector.enabled_feature_groups({src, A, M}), "src": src}
    return _env[fw]


def make_tracer() -> Any:
    from mloda.core.abstract_plugins.function_extender import Extender, ExtenderHook
    from mloda_plugins.feature_group.experimental.aggregated_feature_group.base import AggregatedFeatureGroup
    from mloda_plugins.feature_group.experimental.data_quality.missing_value.base import MissingValueFeatureGroup

    class Tracer(Extender):
        def __init__(self) -> None:
            self.log: List[Any] = []

        def wraps(self) -> Any:
            return {ExtenderHook.FEATURE_GROUP_CALCULATE_FEATURE}

        def __call__(self, func: Any, *args: Any, **kwargs: Any) -> Any:
            cls = getattr(func, "__self__", None)
            fs = args[1] if len(args) > 1 else kwargs.get("features")
            try:
                for f in fs.features:
                    if isinstance(cls, type) and issubclass(cls, AggregatedFeatureGroup):
                        self.log.append([0, cls._extract_aggregation_type(f)])
                    elif isinstance(cls, type) and issubclass(cls, MissingValueFeatureGroup):
                        self.log.append([1, cls._extract_imputation_method(f)])
                    else:
                        self.log.append(["src", f.get_name()])
            except Exception as e:  # noqa: BLE001   (the group's own calculate will raise the same way)
                self.log.append(["trace-error", type(e).__name__])
            return func(*args, **kwargs)

    return Tracer()


def run_one(features: List[Any], fw: str) -> Dict[str, Any]:
    """run_all on one requested feature; canonical observation"""
    from mloda.user import mloda
    e = env(fw)
    tr = make_tracer()
    if not features:
        # run_all([]) never returns on the pinned tree (empty plan, C04 territory); not a C16 input
        return {"ok": False, "exc": "EmptyRequest", "msg": "no feature requested", "trace": []}

    def on_alarm(signum: int, frame: Any) -> None:
        raise RunTimeout()

    old = signal.signal(signal.SIGALRM, on_alarm)
    signal.setitimer(signal.ITIMER_REAL, RUN_TIMEOUT_S)
    try:
        res = mloda.run_all(features, compute_frameworks={e["cf"]}, plugin_collector=e["pc"], function_extender={tr})
    except RunTimeout:
        return {"ok": False, "exc": "RunTimeout", "msg": f"run_all did not return within {RUN_TIMEOUT_S}s", "trace": tr.log}
    except Exception as ex:  # noqa: BLE001
        msg = str(ex)
        return {"ok": False, "exc": type(ex).__name__, "msg": msg if len(msg) <= 700 else msg[:350] + " ... " + msg[-350:], "trace": tr.log}
    finally:
        signal.setitimer(signal.ITIMER_REAL, 0)
        signal.signal(signal.SIGALRM, old)
    cols: Dict[str, List[Any]] = {}
    for t in res:
        d = t.to_dict("list") if hasattr(t, "to_dict") else t.to_pydict()
        for k, v in d.items():
            cols[k] = [None if (x is None or (isinstance(x, float) and math.isnan(x))) else x for x in v]
    return {"ok": True, "cols": cols, "trace": tr.log}


def chain_name(src: str, ops: Sequence[Sequence[Any]]) -> str:
    name = src
    for gi, op in ops:
        name += "__" + op + "_" + GROUP_SPECS[gi]["suf"]
    return name


def spell(sp: str, inner: Any) -> Any:
    """inner: a source name (str) or an encoded Feature; sp: the in_features spelling"""
    if sp == "str":
        return inner
    if sp == "comma":
        return inner + ","          # only used for names in the negative stream
    if sp == "list":
        return ["L", [inner]]
    if sp == "set":
        return ["S", [inner]]
    if sp == "fset":
        return ["F", [inner]]
    if sp == "feat":
        return inner if not isinstance(inner, str) else ["Feat", inner, [], []]
    if sp == "fset_feat":
        return ["F", [inner if not isinstance(inner, str) else ["Feat", inner, [], []]]]
    raise ValueError(sp)


def extra_opts(gi: int, op: str) -> List[Any]:
    return [["constant_value", 9]] if (gi == 1 and op == "constant") else []


def options_chain(src: str, ops: Sequence[Sequence[Any]], sp: str, inner_sp: str, place: str, protect: bool) -> Any:
    """nested Feature description; level i is named ph<i>; place = 'context' | 'group'"""
    cur: Any = spell(sp, src)
    for lvl, (gi, op) in enumerate(ops, start=1):
        pairs = [[GROUP_SPECS[gi]["key"], op], ["in_features", cur]] + extra_opts(gi, op)
        if protect and lvl < len(ops):
            pairs.append(["feature_chainer_parser_key", ["F", list(PROTECT)]])
        f = ["Feat", f"ph{lvl}", pairs if place == "group" else [], pairs if place == "context" else []]
        cur = f if lvl == len(ops) else spell(inner_sp, f)
    return cur


def json_chain(src: str, ops: Sequence[Sequence[Any]], form: str, protect: bool) -> Any:
    """a one-item document.  form: 'nested' (options.in_features dicts), 'context' (depth 1: in_features +
    context_options), 'options' (depth 1: in_features + options), 'mixed' (in_features = [chained name of the rest])"""
    k = len(ops)
    gi, op = ops[-1]
    key = GROUP_SPECS[gi]["key"]
    top: Dict[str, Any] = {"name": f"ph{k}"}
    ex = {kk: vv for kk, vv in extra_opts(gi, op)}
    if form == "context":
        top["in_features"] = [chain_name(src, ops[:-1])]
        top["context_options"] = {key: op, **ex}
    elif form == "options":
        top["in_features"] = [chain_name(src, ops[:-1])]
        top["options"] = {key: op, **ex}
    elif form == "mixed":
        top["options"] = {key: op, "in_features": chain_name(src, ops[:-1]), **ex}
    else:
        def nested(lvl: int) -> Any:
            g2, o2 = ops[lvl - 1]
            d: Dict[str, Any] = {"name": f"ph{lvl}", "options": {GROUP_SPECS[g2]["key"]: o2, **{kk: vv for kk, vv in extra_opts(g2, o2)}}}
            if protect:
                d["options"]["feature_chainer_parser_key"] = list(PROTECT)
            if lvl == 1:
                d["in_features"] = [src]
            else:
                d["in_features"] = nested(lvl - 1)
            return d
        if k == 1:
            top["options"] = {key: op, "in_features": src, **ex}
        else:
            top["options"] = {key: op, "in_features": nested(k - 1), **ex}
    return [top]


def oracle(src: str, ops: Sequence[Sequence[Any]]) -> Optional[List[Optional[Fraction]]]:
    """reference values, operations applied left to right; None when an operation is outside the reference subset"""
    col: List[Optional[Fraction]] = [None if x is None else Fraction(x) for x in {**DATA, **MULTI}[src]]
    n = len(col)
    for gi, op in ops:
        present = [x for x in col if x is not None]
        if gi == 0:
            if op not in AGGR_ORACLE:
                return None
            if op == "count":
                v: Optional[Fraction] = Fraction(len(present))
            elif not present:
                return None
            elif op == "sum":
                v = sum(present, Fraction(0))
            elif op == "min":
                v = min(present)
            elif op == "max":
                v = max(present)
            else:
                v = sum(present, Fraction(0)) / len(present)
            col = [v] * n
        else:
            if op not in MV_ORACLE:
                return None
            if op == "mean":
                if not present:
                    return None
                m = sum(present, Fraction(0)) / len(present)
                col = [m if x is None else x for x in col]
            elif op == "constant":
                col = [Fraction(9) if x is None else x for x in col]
            elif op == "ffill":
                last: Optional[Fraction] = None
                out = []
                for x in col:
                    last = x if x is not None else last
                    out.append(last)
                col = out
            else:
                nxt: Optional[Fraction] = None
                out = []
                for x in reversed(col):
                    nxt = x if x is not None else nxt
                    out.append(nxt)
                col = list(reversed(out))
    return col


def close(a: Any, b: Any) -> bool:
    if a is None or b is None:
        return a is None and b is None
    fa, fb = float(a), float(b)
    return abs(fa - fb) <= 1e-9 * max(1.0, abs(fa), abs(fb))


def same_values(x: Sequence[Any], y: Sequence[Any]) -> bool:
    return len(x) == len(y) and all(close(p, q) for p, q in zip(x, y))


def cq_trace(t: Optional[Sequence[Sequence[Any]]]) -> str:
    if t is None:
        return "None"
    return "(Some " + cq_list(f"({cq_nat(g)}, {cq_pv(o)})" for g, o in t) + ")"


def observed_trace(r: Dict[str, Any]) -> Optional[List[List[Any]]]:
    """group trace in application order (source calls dropped); None when the run was rejected"""
    if not r["ok"]:
        return None
    return [e for e in r["trace"] if e[0] in (0, 1)]


def gen_chain(rng: random.Random, max_depth: int, oracle_only: bool) -> Tuple[str, List[List[Any]]]:
    src = rng.choice(["a", "b"])
    ops: List[List[Any]] = []
    for _ in range(rng.randrange(1, max_depth + 1)):
        gi = rng.randrange(2)
        vocab = (AGGR_ORACLE if gi == 0 else MV_ORACLE) if oracle_only else (GROUP_SPECS[gi]["vocab"] if gi == 0 else MV_E2E)
        ops.append([gi, rng.choice(vocab)])
    return src, ops


def same_key_conflict(ops: Sequence[Sequence[Any]]) -> bool:
    """two adjacent levels carry the same option key with different values"""
    return any(a[0] == b[0] and a[1] != b[1] for a, b in zip(ops, ops[1:])) or \
        any(a[0] == 1 and b[0] == 1 and (a[1] == "constant") != (b[1] == "constant") for a, b in zip(ops, ops[1:]))


def triple_case(rng: random.Random, max_depth: int) -> dict:
    src, ops = gen_chain(rng, max_depth, oracle_only=rng.random() < 0.7)
    k = len(ops)
    sp = rng.choice(["str", "fset", "feat", "fset_feat", "str", "fset", "list", "set"])
    inner_sp = rng.choice(["feat", "fset_feat"])
    # a Feature nested inside a frozenset makes run_all super-exponentially slow in the nesting depth on the pinned tree
    # (0.01 s, 0.2 s, 10 s, > 120 s for depth 1..4; the values are right) — keep those spellings shallow
    # (one frozenset-of-Feature level costs ~0.2 s, two ~10 s, three minutes): at most one such level per case
    if inner_sp == "fset_feat" and (k != 2 or sp == "fset_feat"):
        inner_sp = "feat"
    if sp == "fset_feat" and k > 2:
        sp = "feat"
    place = rng.choice(["context", "context", "group"])
    forms = ["nested", "mixed"] + (["context", "options"] if True else [])
    form = rng.choice(forms)
    fw = rng.choice(FWS)
    return {"kind": "triple", "fw": fw, "src": src, "ops": ops, "sp": sp, "inner_sp": inner_sp, "place": place, "form": form,
            "protect": True, "name": chain_name(src, ops),
            "O": options_chain(src, ops, sp, inner_sp, place, True), "J": json_chain(src, ops, form, True), "k": k}


def run_triple(c: dict) -> dict:
    from mloda.user import Feature
    from mloda.core.api.feature_config.loader import load_features_from_config
    rn = run_one([Feature(c["name"])], c["fw"])
    try:
        ro = run_one([to_py(c["O"])], c["fw"])
    except Exception as e:  # noqa: BLE001
        ro = {"ok": False, "exc": type(e).__name__, "msg": "construct: " + str(e)[:200], "trace": []}
    try:
        rj = run_one(load_features_from_config(json.dumps(c["J"])), c["fw"])
    except Exception as e:  # noqa: BLE001
        rj = {"ok": False, "exc": type(e).__name__, "msg": "load: " + str(e)[:200], "trace": []}
    return {"N": rn, "O": ro, "J": rj}


# ------------------------------------------------------------------------------------------------------------
# the pair (planned input features, column the calculation reads)
# ------------------------------------------------------------------------------------------------------------
def pair_cases(rng: random.Random, n: int) -> List[dict]:
    """(group, name, options) with a chained name of length 1-4 (or a placeholder) of the group of the LAST link, next to
    in_features naming the predecessor / the root / another ancestor / an unrelated column / nothing, in every spelling"""
    out = []
    for _ in range(n):
        k = rng.randrange(1, 5)
        src = rng.choice(["a", "b", "price", "x_y", "a~0"])
        ops = []
        for _i in range(k):
            gi = rng.randrange(len(GROUP_SPECS))
            ops.append([gi, rng.choice(GROUP_SPECS[gi]["vocab"])])
        gi, op = ops[-1]
        pred = chain_name(src, ops[:-1])
        cands = {"pred": pred, "root": src, "anc": chain_name(src, ops[:rng.randrange(0, k)]), "other": rng.choice(["b", "zz", "a__sum_aggr"]),
                 "two": pred + "," + src}
        which = rng.choice(["none", "pred", "root", "root", "anc", "anc", "other", "two"])
        name = chain_name(src, ops) if rng.random() < 0.8 else rng.choice(["ph", "out", "x_y"])
        pairs: List[Any] = []
        if which != "none":
            v = cands[which]
            sp = rng.choice(["str", "str", "list", "set", "fset", "feat", "fset_feat"]) if which != "two" else "str"
            pairs.append(["in_features", spell(sp, v)])
        if rng.random() < 0.5:
            pairs.append([GROUP_SPECS[gi]["key"], op])
        rng.shuffle(pairs)
        in_group = rng.random() < 0.3
        out.append({"gi": gi, "name": name, "group": pairs if in_group else [], "context": [] if in_group else pairs,
                    "which": which, "k": k, "chained": name not in ("ph", "out", "x_y")})
    return out


def py_pair_ok(pl: Any, ca: Any) -> bool:
    """the statement on the observation alone: planning succeeded -> the calculation reads exactly the planned names"""
    if pl[0] != "ok":
        return True
    if ca[0] != "ok":
        return False
    names = sorted({(f[1] if isinstance(f, list) and f and f[0] == "Feat" else f) for f in map(_freeze_name, pl[1])})
    return names == sorted(set(ca[1]))


def _freeze_name(f: Any) -> Any:
    return f[1] if isinstance(f, list) and f and f[0] == "Feat" else f


def make_src_tracer() -> Any:
    """Extender hook on calculate_feature: for every call the class, the names of the FeatureSet and the data's columns"""
    from mloda.core.abstract_plugins.function_extender import Extender, ExtenderHook

    class SrcTracer(Extender):
        def __init__(self) -> None:
            self.calls: List[Any] = []

        def wraps(self) -> Any:
            return {ExtenderHook.FEATURE_GROUP_CALCULATE_FEATURE}

        def __call__(self, func: Any, *args: Any, **kwargs: Any) -> Any:
            cls = getattr(func, "__self__", None)
            data = args[0] if args else kwargs.get("data")
            fs = args[1] if len(args) > 1 else kwargs.get("features")
            try:
                cols = list(data.columns) if hasattr(data, "columns") and not hasattr(data, "column_names") else \
                    (list(data.column_names) if hasattr(data, "column_names") else [])
                self.calls.append({"cls": getattr(cls, "__name__", "?"), "names": sorted(f.get_name() for f in fs.features),
                                   "cols": sorted(str(c) for c in cols)})
            except Exception as e:  # noqa: BLE001
                self.calls.append({"cls": "trace-error", "names": [type(e).__name__], "cols": []})
            return func(*args, **kwargs)

    return SrcTracer()


def run_src(feature: Any, fw: str) -> Dict[str, Any]:
    """run_all on one feature with the SrcTracer; values of every returned column"""
    from mloda.user import mloda
    e = env(fw)
    tr = make_src_tracer()

    def on_alarm(signum: int, frame: Any) -> None:
        raise RunTimeout()

    old = signal.signal(signal.SIGALRM, on_alarm)
    signal.setitimer(signal.ITIMER_REAL, RUN_TIMEOUT_S)
    try:
        res = mloda.run_all([feature], compute_frameworks={e["cf"]}, plugin_collector=e["pc"], function_extender={tr})
    except RunTimeout:
        return {"ok": False, "exc": "RunTimeout", "msg": "timeout", "calls": tr.calls}
    except Exception as ex:  # noqa: BLE001
        return {"ok": False, "exc": type(ex).__name__, "msg": str(ex)[:300], "calls": tr.calls}
    finally:
        signal.setitimer(signal.ITIMER_REAL, 0)
        signal.signal(signal.SIGALRM, old)
    cols: Dict[str, List[Any]] = {}
    for t in res:
        d = t.to_dict("list") if hasattr(t, "to_dict") else t.to_pydict()
        for k, v in d.items():
            cols[k] = [None if (x is None or (isinstance(x, float) and math.isnan(x))) else x for x in v]
    return {"ok": True, "cols": cols, "calls": tr.calls}


def src_case(rng: random.Random, k: int) -> dict:
    """like _src_case; prefers a chain on which the predecessor column gives a value that no other candidate column gives"""
    c = _src_case(rng, k)
    for _ in range(12):
        cand = src_candidates(c)
        if all(v is not None for v in cand.values()) and \
                not any(col != c["pred"] and same_values(v, cand[c["pred"]]) for col, v in cand.items()):
            break
        c = _src_case(rng, k)
    return c


def _src_case(rng: random.Random, k: int) -> dict:
    """one chain of length k over {aggr, imputed} (operations of the value oracle) and all its notations of the LAST link"""
    src = rng.choice(["a", "b"])
    ops: List[List[Any]] = []
    for i in range(k):
        gi = rng.randrange(2)
        if i == k - 1 and k > 1 and rng.random() < 0.7:
            # a last operation that tells the candidate columns apart more often
            gi, op = rng.choice([[0, "sum"], [0, "avg"], [0, "count"], [0, "sum"], [1, "mean"], [1, "ffill"]])
        else:
            op = rng.choice(AGGR_ORACLE if gi == 0 else MV_ORACLE)
        ops.append([gi, op])
    gi, op = ops[-1]
    key = GROUP_SPECS[gi]["key"]
    name, pred = chain_name(src, ops), chain_name(src, ops[:-1])
    other = "b" if src == "a" else "a"
    sp = rng.choice(["str", "fset", "feat", "fset_feat"])
    place = "group" if rng.random() < 0.25 else "context"

    def feat_with(nm: str, pairs: List[Any]) -> Any:
        return ["Feat", nm, pairs if place == "group" else [], pairs if place == "context" else []]

    variants: List[Any] = [["name", "feat", ["Feat", name, [], []], name, None],
                           ["json-name", "json", [{"name": name}], name, None]]
    targets = [["pred", pred], ["other", other]]
    if k >= 2:
        targets.append(["root", src])
    if k >= 3:
        targets.append(["anc", chain_name(src, ops[:rng.randrange(1, k - 1)])])
    for label, x in targets:
        variants.append(["name+in_features=" + label, "feat", feat_with(name, [["in_features", spell(sp, x)]]), name, x])
        variants.append(["json-name+in_features=" + label, "json", [{"name": name, "in_features": [x]}], name, x])
    variants.append(["options", "feat", feat_with("ph", [[key, op], ["in_features", spell(sp, pred)]]), "ph", pred])
    variants.append(["json", "json", [{"name": "ph", "in_features": [pred], "context_options": {key: op}}], "ph", pred])
    return {"kind": "sources", "fw": rng.choice(FWS), "src": src, "ops": ops, "k": k, "name": name, "pred": pred, "sp": sp,
            "place": place, "variants": variants}


def src_candidates(c: dict) -> Dict[str, Any]:
    """for every column the last link could read (root columns, every prefix of the chain): the value the last operation
    gives on it, by the exact-rational oracle"""
    last = c["ops"][-1]
    out: Dict[str, Any] = {}
    for root in ("a", "b"):
        out[root] = oracle(root, [last])
    for j in range(1, c["k"]):
        out[chain_name(c["src"], c["ops"][:j])] = oracle(c["src"], list(c["ops"][:j]) + [last])
    return out


def run_src_variant(c: dict, v: Sequence[Any]) -> Dict[str, Any]:
    from mloda.core.api.feature_config.loader import load_features_from_config
    label, how, payload, col, _x = v
    try:
        feature = to_py(payload) if how == "feat" else load_features_from_config(json.dumps(payload))[0]
    except Exception as e:  # noqa: BLE001
        return {"ok": False, "exc": type(e).__name__, "msg": "construct/load: " + str(e)[:200], "calls": [], "feature": None}
    enc = from_py(feature) if not isinstance(feature, str) else ["Feat", feature, [], []]
    r = run_src(feature, c["fw"])
    r["feature"] = enc
    r["values"] = r["cols"].get(col) if r["ok"] else None
    # the input the planner resolved for the last link: the features of the calculate call right before the last one,
    # and whether that column was in the frame handed to the last link
    calls = r["calls"]
    r["planned"] = calls[-2]["names"] if len(calls) >= 2 else []
    r["last_cols"] = calls[-1]["cols"] if calls else []
    return r



def value_of(r: Dict[str, Any], col: str) -> Optional[List[Any]]:
    return r["cols"].get(col) if r["ok"] else None


# ------------------------------------------------------------------------------------------------------------
def run(rep: vlib.Reporter, tier: str, seed: int) -> None:
    rng = random.Random(seed * 7919 + 16)
    big = tier == "thorough"
    pr = vlib.build_props("C16")
    rep.proof(pr)
    rep.coverage["trusted_base"] += [
        "hand-written models Model/ChainParser.v (parse_feature_name with re.match written out for the family "
        r".*__([\w]+)_<suf>$, rsplit, input_features, get_in_features, property-mapping validation, "
        "match_feature_group_criteria, operation extraction of the aggregation / missing-value groups) and "
        "Model/ConfigLoader.v (parse_json, FeatureConfig, process_nested_features, load_features_from_config); tied by the "
        "correspondences listed under coverage",
        "names are 7-bit ASCII (Python's \\w and str.strip are Unicode aware; the model is not)",
        "json.loads / json.dumps: the JSON text is abstracted to its tree; integers only, object keys unique",
        "not modelled: merging of a consumer's options into its input features (feature_collection.merge_options, "
        "property C15); end to end the nested notations are run with feature_chainer_parser_key protection and, "
        "separately, without it",
        "value oracle (exact rationals) for sum/min/max/avg/mean/count and mean/constant/ffill/bfill imputations, "
        "written from the group docstrings",
        "Python re / str.rsplit are the reference for the regex family (library behaviour)"]
    found = False
    phase_s: Dict[str, float] = {}
    t_last = [rep.t0]

    def mark(name: str) -> None:
        now = time.time()
        phase_s[name] = round(now - t_last[0], 1)
        t_last[0] = now

    mark("build_props")

    def finding(key: str, what: str, replay: Any) -> None:
        nonlocal found
        rep.finding(key, what, replay)
        if not any(k["key"] == key for k in rep.kf):
            found = True

    # ---------------------------------------------------------------- parse
    cases: List[dict] = []
    for _ in range(6000 if big else 700):
        name, ops = wf_chain(rng, rng.randrange(1, 5))
        sufs = {ops[-1][1], rng.choice(SUFS)}
        for suf in sufs:
            cases.append({"name": name, "suf": suf, "stream": "wf"})
    for _ in range(20000 if big else 1500):
        cases.append({"name": malformed(rng), "suf": rng.choice(SUFS[:2] + ["x_aggr"]), "stream": "malformed"})
    for nm in FIXED_MALFORMED:
        for suf in ("aggr", "x_aggr", "imputed"):
            cases.append({"name": nm, "suf": suf, "stream": "fixed"})
    for body in small_strings("a_-\n", 7 if big else 5):
        for end in ("", "_aggr", "_aggr\n"):
            cases.append({"name": body + end, "suf": "aggr", "stream": "exhaustive"})
    seen = set()
    uniq = []
    for c in cases:
        key = (c["name"], c["suf"])
        if key not in seen:
            seen.add(key)
            uniq.append(c)
    cases = uniq
    for c in cases:
        c["obs"] = obs_parse(c["name"], c["suf"])
    bad, info = vlib.run_cases("C16", "parse", REQ, "chk_parse", [parse_term(c) for c in cases], extra_defs=EXTRA,
                               case_type="(str * str) * option presult", shard=400)
    rep.count(len(cases))
    dist: Dict[str, int] = {}
    for c in cases:
        k = c["stream"] + ":" + c["obs"][0]
        dist[k] = dist.get(k, 0) + 1
        if c["obs"][0] in ("P", "E"):
            rep.nontrivial(("p", c["name"], c["suf"]))
    rep.add("parse", {**info, "cases": len(cases), "distribution": dist, "disagreements": len(bad),
                      "exhaustive_alphabet": "a _ - newline", "exhaustive_max_len": 7 if big else 5})
    for i in bad[:5]:
        c = cases[i]
        finding(f"parse:{c['name']!r}:{c['suf']}", f"parse_feature_name({c['name']!r}, pattern {pattern_of(c['suf'])!r}) = {c['obs']} "
                "differs from the model of rsplit + re.match", {"kind": "parse", **c})
    # the property itself on the real parser, independently of the model: renderings read back; what parses has the shape
    rt_fail, shape_fail, disagree = [], [], []
    for c in cases:
        exp = py_render_ok(c["name"], c["suf"])
        o = c["obs"]
        if exp is not None and not (o[0] == "P" and (o[1], o[2]) == exp):
            rt_fail.append(c)
        if o[0] == "P":
            op, src = o[1], o[2]
            core = c["name"][:-1] if c["name"].endswith("\n") else c["name"]
            okshape = (src != "" and op != "" and all(ch.isalnum() or ch == "_" for ch in op) and core.endswith(op + "_" + c["suf"])
                       and c["name"].startswith(src + "__") and "__" not in ("_" + c["name"][len(src) + 2:]))
            if not okshape:
                shape_fail.append(c)
            if core != src + "__" + op + "_" + c["suf"]:
                disagree.append(c)
                if not op.endswith("_"):
                    shape_fail.append(c)
    rep.add("parse_property", {"roundtrip_checked": sum(1 for c in cases if py_render_ok(c["name"], c["suf"])),
                               "roundtrip_failures": len(rt_fail), "shape_failures": len(shape_fail),
                               "rsplit_regex_disagreements": len(disagree),
                               "rsplit_regex_disagreement_samples": [[c["name"], c["obs"][1], c["obs"][2]] for c in disagree[:8]]})
    for c in rt_fail[:3]:
        finding(f"roundtrip:{c['name']!r}:{c['suf']}", f"well-formed name {c['name']!r} does not read back: {c['obs']}", {"kind": "parse", **c})
    for c in shape_fail[:3]:
        finding(f"shape:{c['name']!r}:{c['suf']}", f"{c['name']!r} parsed as {c['obs']} which is outside the stated shape",
                {"kind": "parse", **c})

    mark("parse")
    # ---------------------------------------------------------------- get_in_features
    vals = infeat_values(rng, 4000 if big else 500)
    ic = [{"v": v, "obs": obs_infeat(v)} for v in vals]
    bad, info = vlib.run_cases("C16", "infeat", REQ, "chk_infeat",
                               [f"({cq_pv(c['v'])}, {cq_res(c['obs'], cq_pvlist)})" for c in ic], extra_defs=EXTRA,
                               case_type="pv * res (list pv)")
    rep.count(len(ic))
    for c in ic:
        if c["obs"][0] == "ok" and len(c["obs"][1]) >= 1:
            rep.nontrivial(("i", c["v"]))
    rep.add("get_in_features", {**info, "cases": len(ic), "ok": sum(1 for c in ic if c["obs"][0] == "ok"),
                                "errors": {k: sum(1 for c in ic if c["obs"][0] == "err" and c["obs"][1] == k) for k in ("EValue", "EType")},
                                "disagreements": len(bad)})
    for i in bad[:5]:
        finding(f"infeat:{json.dumps(ic[i]['v'])}", f"Options.get_in_features on {ic[i]['v']!r} gives {ic[i]['obs']} — differs from the model",
                {"kind": "infeat", **ic[i]})

    mark("get_in_features")
    # ---------------------------------------------------------------- input_features / match / op
    fc = feature_cases(rng, 12000 if big else 1500)
    for name_, fn, chk, printer, ty in (
            ("inputs", obs_inputs, "chk_inputs", cq_pvlist, "res (list pv)"),
            ("match", obs_match, "chk_match", cq_bool, "res bool"),
            ("op", obs_op, "chk_op", cq_pv, "res pv")):
        sel = [c for c in fc if (name_ != "op" or c["gi"] in (0, 1))]
        obs = [fn(c) for c in sel]
        keep = [(c, o) for c, o in zip(sel, obs) if o[0] != "skip"]
        bad, info = vlib.run_cases("C16", name_, REQ, chk, [feature_term(c, o, printer) for c, o in keep], extra_defs=EXTRA,
                                   case_type=f"(nat * str * list (str * pv) * list (str * pv)) * {ty}")
        rep.count(len(keep))
        d2: Dict[str, int] = {}
        for c, o in keep:
            k = o[0] if o[0] == "err" else ("ok:" + (str(o[1]) if name_ == "match" else ""))
            k = k + (":" + o[1] if o[0] == "err" else "")
            d2[k] = d2.get(k, 0) + 1
            if o[0] == "ok" and o[1] not in (False, None, []):
                rep.nontrivial((name_, c["gi"], c["name"], c["group"], c["context"]))
        rep.add(name_, {**info, "cases": len(keep), "skipped_unconstructible_options": len(sel) - len(keep), "distribution": d2,
                        "disagreements": len(bad)})
        for i in bad[:5]:
            c, o = keep[i]
            finding(f"{name_}:{c['gi']}:{c['name']!r}:{json.dumps([c['group'], c['context']])}",
                    f"{name_} of group {GROUP_SPECS[c['gi']]['suf']} on name {c['name']!r} with options group={c['group']} "
                    f"context={c['context']} gives {o} — differs from the model", {"kind": name_, **c, "obs": o})

    mark("inputs_match_op")
    # ---------------------------------------------------------------- the pair: planned inputs / columns read (unit level)
    pcs = pair_cases(rng, 8000 if big else 900) + [dict(c, which="mixed", k=0, chained=None) for c in fc[:(3000 if big else 400)]]
    keepp = []
    for c in pcs:
        pl, ca = obs_inputs(c), obs_calc(c)
        if pl[0] == "skip" or ca[0] == "skip":
            continue
        keepp.append((c, pl, ca))
    bad, info = vlib.run_cases(
        "C16", "pair", REQ, "chk_pair",
        [f"(({cq_nat(c['gi'])}, {cqs(c['name'])}, {cq_pairs(c['group'])}, {cq_pairs(c['context'])}), "
         f"({cq_res(pl, cq_pvlist)}, {cq_res(ca, cq_pvlist)}))" for c, pl, ca in keepp],
        extra_defs=EXTRA, case_type="(nat * str * list (str * pv) * list (str * pv)) * (res (list pv) * res (list pv))")
    rep.count(len(keepp))
    pd_: Dict[str, int] = {}
    judge_fail = 0
    for c, pl, ca in keepp:
        kk = f"{'chained' if c['chained'] else ('plain' if c['chained'] is False else 'mixed')}:in_features={c['which']}:plan={pl[0]}:calc={ca[0]}"
        pd_[kk] = pd_.get(kk, 0) + 1
        if pl[0] == "ok" and ca[0] == "ok" and c["which"] not in ("none",):
            rep.nontrivial(("pair", c["gi"], c["name"], json.dumps([c["group"], c["context"]])))
        if not py_pair_ok(pl, ca):
            judge_fail += 1
        if not py_pair_ok(pl, ca) and judge_fail <= 3:
            finding(f"pair-judge:{c['gi']}:{c['name']!r}:{json.dumps([c['group'], c['context']])}",
                    f"group {GROUP_SPECS[c['gi']]['suf']}, feature {c['name']!r} with options group={c['group']} context={c['context']}: "
                    f"input_features (planning) = {pl} but _extract_source_features (calculation) = {ca}: the calculation does not "
                    "read what was planned", {"kind": "pair", **c, "obs": [pl, ca]})
    rep.add("pair", {**info, "cases": len(keepp), "distribution": pd_, "disagreements": len(bad), "judge_failures": judge_fail})
    for i in bad[:3]:
        c, pl, ca = keepp[i]
        finding(f"pair:{c['gi']}:{c['name']!r}:{json.dumps([c['group'], c['context']])}",
                f"group {GROUP_SPECS[c['gi']]['suf']}, feature {c['name']!r} with options group={c['group']} context={c['context']}: "
                f"input_features = {pl}, _extract_source_features = {ca} — differs from the model pair (plan_sources, calc_sources)",
                {"kind": "pair", **c, "obs": [pl, ca]})

    mark("pair")
    # ---------------------------------------------------------------- the pair end to end: every notation of the last link
    scs = [src_case(rng, k) for k in (1, 2, 3, 4) for _ in range(250 if big else 11)]
    sst2: Dict[str, Any] = {"chains": 0, "runs": 0, "all_notations_equal": 0, "read_column_identified_by_value": 0, "by_depth": {},
                            "by_notation": {}, "by_fw": {}}
    src_terms, src_meta = [], []
    src_reported = [0]

    def src_finding(key: str, what: str, replay: Any) -> None:
        nonlocal found
        sst2["failures"] = sst2.get("failures", 0) + 1
        src_reported[0] += 1
        if src_reported[0] <= 6:
            finding(key, what, replay)
        else:
            found = True

    for c in scs:
        sst2["chains"] += 1
        sst2["by_depth"][str(c["k"])] = sst2["by_depth"].get(str(c["k"]), 0) + 1
        sst2["by_fw"][c["fw"]] = sst2["by_fw"].get(c["fw"], 0) + 1
        cand = src_candidates(c)
        orc = oracle(c["src"], c["ops"])
        ref: Optional[List[Any]] = None
        equal = True
        base = {k2: c[k2] for k2 in ("kind", "fw", "src", "ops", "k", "name", "pred", "sp", "place")}
        for v in c["variants"]:
            r = run_src_variant(c, v)
            sst2["runs"] += 1
            sst2["by_notation"][v[0]] = sst2["by_notation"].get(v[0], 0) + 1
            rep.count(1)
            replay = {**base, "variant": list(v), "res": {"ok": r["ok"], "exc": r.get("exc"), "msg": r.get("msg"), "values": r.get("values"),
                                                          "planned": r.get("planned"), "calls": r.get("calls")}}
            vals = r.get("values")
            if v[0] == "name":
                if vals is None or orc is None or not same_values(vals, orc):
                    equal = False
                    src_finding(f"src-name:{c['name']}:{c['fw']}", f"chained name {c['name']} on {c['fw']} gives {vals if vals is not None else r.get('msg')}; "
                            f"left-to-right reference {None if orc is None else [None if x is None else float(x) for x in orc]}", replay)
                    break
                ref = vals
            if vals is None or ref is None or not same_values(vals, ref):
                equal = False
                match = [col for col, cv in cand.items() if vals is not None and cv is not None and same_values(vals, cv)]
                src_finding(f"src-notation:{v[0]}:{c['name']}:{c['fw']}",
                        f"{v[0]}: {json.dumps(v[2])} on {c['fw']} gives {vals if vals is not None else (r.get('exc'), r.get('msg'))} but the "
                        f"plain chained name {c['name']} gives {ref}; the value is the one of the last operation over column(s) {match}, "
                        f"the planner resolved {r.get('planned')} as input of the last link (predecessor in the name: {c['pred']})", replay)
                continue
            # (a) the input the planner resolved, (b) the column identified from the value
            consistent = [col for col, cv in cand.items() if cv is not None and same_values(vals, cv)]
            planned = r["planned"]
            if planned != [c["pred"]] or c["pred"] not in r["last_cols"]:
                equal = False
                src_finding(f"src-planned:{v[0]}:{c['name']}:{c['fw']}", f"{v[0]}: {json.dumps(v[2])}: the feature computed before the last link is "
                        f"{planned}, columns handed to the last link {r['last_cols']}; the predecessor is {c['pred']}", replay)
                continue
            read = c["pred"] if c["pred"] in consistent else (consistent[0] if consistent else "?")
            if consistent == [c["pred"]]:
                sst2["read_column_identified_by_value"] += 1
                rep.nontrivial(("src", c["name"], v[0], c["fw"], c["sp"], c["place"]))
            src_terms.append(f"(({cq_nat(c['ops'][-1][0])}, {cq_pv(r['feature'])}), ({cqs(planned[0])}, {cqs(read)}))")
            src_meta.append(replay)
        sst2["all_notations_equal"] += 1 if equal else 0
    bad, info = vlib.run_cases("C16", "src_run", REQ, "chk_src_run", src_terms, extra_defs=EXTRA, case_type="(nat * pv) * (str * str)")
    sst2["model_disagreements"] = len(bad)
    for i in bad[:5]:
        m = src_meta[i]
        finding(f"src-model:{m['variant'][0]}:{m['name']}:{m['fw']}", f"{m['variant'][0]}: {json.dumps(m['variant'][2])}: planner input {m['res']['planned']}, "
                "column identified from the value — differs from the model (plan_sources, calc_column)", m)
    rep.add("e2e_sources", {**info, **sst2})

    mark("e2e_sources")
    # ---------------------------------------------------------------- JSON documents
    docs = list(FIXED_DOCS) + [rand_doc(rng) for _ in range(15000 if big else 1800)]
    jc = []
    for d in docs:
        o = obs_json(d)
        if o[0] != "unmodelled":
            jc.append({"doc": d, "obs": o})
    terms = [json_term(c["doc"], c["obs"]) for c in jc]
    bad, info = vlib.run_cases("C16", "json", REQ, "chk_json", terms, extra_defs=EXTRA, case_type="json * option (list pv)")
    inv_acc = set(range(len(jc))) - set(vlib.run_cases("C16", "json_cls", REQ, "invalid_accepted", terms, extra_defs=EXTRA,
                                                       case_type="json * option (list pv)")[0])
    rep.count(len(jc))
    jd: Dict[str, int] = {}
    for i, c in enumerate(jc):
        k = "accepted" if c["obs"][0] == "ok" else "rejected:" + c["obs"][2]
        jd[k] = jd.get(k, 0) + 1
        if c["obs"][0] == "ok" and c["obs"][1]:
            rep.nontrivial(("j", c["doc"]))
    rep.add("json", {**info, "cases": len(jc), "unmodelled_skipped": len(docs) - len(jc), "distribution": jd,
                     "schema_invalid_but_accepted_by_model": len(inv_acc), "disagreements": len(bad)})
    for i in bad[:5]:
        c = jc[i]
        finding(f"json:{json.dumps(c['doc'])}", f"load_features_from_config on {json.dumps(c['doc'])} gives {c['obs'][:2]} — differs from "
                "the model of the loader", {"kind": "json", **c})
    # schema property on the real loader: a schema-invalid document that the real loader accepts
    real_inv_acc = [jc[i] for i in sorted(inv_acc) if jc[i]["obs"][0] == "ok"]
    if real_inv_acc:
        rep.finding(KF_UNTYPED, "schema-invalid document accepted by load_features_from_config", {"kind": "json", **real_inv_acc[0]})
        if not any(k["key"] == KF_UNTYPED for k in rep.kf):
            found = True

    mark("json")
    # ---------------------------------------------------------------- end to end: triples
    tc = [triple_case(rng, 4) for _ in range(10000 if big else 300)]
    tri_terms, tri_cases = [], []
    unh_terms, unh_cases = [], []
    stats = {"triples": 0, "all_equal": 0, "oracle_checked": 0, "kf_unhashable": 0, "by_depth": {}, "by_fw": {}, "by_form": {},
             "by_spelling": {}}
    for c in tc:
        r = run_triple(c)
        c["res"] = {k: ({"ok": v["ok"], "exc": v.get("exc"), "msg": (v.get("msg") or "")[:160]}) for k, v in r.items()}
        stats["triples"] += 1
        for key, val in (("by_depth", c["k"]), ("by_fw", c["fw"]), ("by_form", c["form"]), ("by_spelling", c["sp"])):
            stats[key][str(val)] = stats[key].get(str(val), 0) + 1
        rep.count(3)
        vn = value_of(r["N"], c["name"])
        vo = value_of(r["O"], f"ph{c['k']}")
        vj = value_of(r["J"], f"ph{c['k']}")
        exp_trace = [[gi, op] for gi, op in c["ops"]]
        unhash = c["sp"] in ("list", "set")
        replay = {"kind": "triple", **{k: c[k] for k in ("fw", "src", "ops", "sp", "inner_sp", "place", "form", "protect", "name", "O", "J", "k")},
                  "res": c["res"]}
        if vn is None:
            finding(f"e2e-name:{c['name']}:{c['fw']}", f"chained name {c['name']} is not computed on {c['fw']}: {c['res']['N']}", replay)
            continue
        orc = oracle(c["src"], c["ops"])
        if orc is not None:
            stats["oracle_checked"] += 1
            if not same_values(vn, orc):
                finding(f"e2e-order:{c['name']}:{c['fw']}", f"{c['name']} on {c['fw']} = {vn}, left-to-right reference = {[None if x is None else float(x) for x in orc]}",
                        replay)
                continue
        if observed_trace(r["N"]) != exp_trace:
            finding(f"e2e-trace:{c['name']}:{c['fw']}", f"{c['name']}: groups ran as {observed_trace(r['N'])}, expected {exp_trace}", replay)
            continue
        # JSON and options notations
        ok_j = vj is not None and same_values(vn, vj) and observed_trace(r["J"]) == exp_trace
        if not ok_j:
            finding(f"e2e-json:{json.dumps(c['J'])}:{c['fw']}", f"JSON notation {json.dumps(c['J'])} gives {vj if vj is not None else c['res']['J']} "
                    f"(trace {observed_trace(r['J'])}); the name {c['name']} gives {vn}", replay)
            continue
        ok_o = vo is not None and same_values(vn, vo) and observed_trace(r["O"]) == exp_trace
        if unhash:
            unh_terms.append(f"({cq_pv(c['O'])}, {cq_bool(not ok_o)})")
            unh_cases.append(c)
            if not ok_o:
                if r["O"].get("exc") == "TypeError" and "unhashable" in (r["O"].get("msg") or ""):
                    stats["kf_unhashable"] += 1
                    rep.finding(KF_UNHASHABLE, "list/set spelling of in_features raises TypeError", replay)
                    if not any(k["key"] == KF_UNHASHABLE for k in rep.kf):
                        found = True
                else:
                    finding(f"e2e-options:{json.dumps(c['O'])}:{c['fw']}", f"options notation fails differently: {c['res']['O']}", replay)
            continue
        if not ok_o:
            finding(f"e2e-options:{json.dumps(c['O'])}:{c['fw']}", f"options notation {json.dumps(c['O'])} gives {vo if vo is not None else c['res']['O']} "
                    f"(trace {observed_trace(r['O'])}); the name {c['name']} gives {vn}", replay)
            continue
        stats["all_equal"] += 1
        rep.nontrivial(("t", c["src"], c["ops"], c["sp"], c["inner_sp"], c["place"], c["form"], c["fw"]))
        tri_cases.append(c)
        tri_terms.append(f"((({cq_pv(['Feat', c['name'], [], []])}, {cq_pv(c['O'])}, {cq_json(c['J'])})), "
                         f"{cq_list(f'({cq_nat(g)}, {cq_pv(o)})' for g, o in exp_trace)})")
    bad, info = vlib.run_cases("C16", "triples", REQ, "chk_triple", tri_terms, extra_defs=EXTRA,
                               case_type="(pv * pv * json) * list (nat * pv)", shard=200)
    stats["model_disagreements"] = len(bad)
    for i in bad[:5]:
        c = tri_cases[i]
        finding(f"e2e-model:{c['name']}:{json.dumps(c['O'])}", "the three notations computed the same values but the model does not resolve "
                f"them to the trace {c['ops']}", {"kind": "triple", **{k: c[k] for k in ("fw", "src", "ops", "sp", "inner_sp", "place", "form", "protect", "name", "O", "J", "k")}})
    bad, _ = vlib.run_cases("C16", "unhashable", REQ, "chk_unhashable", unh_terms, extra_defs=EXTRA, case_type="pv * bool")
    stats["unhashable_cases"] = len(unh_cases)
    stats["unhashable_model_disagreements"] = len(bad)
    for i in bad[:3]:
        c = unh_cases[i]
        # the defect is present and the model does not show it, or the defect is fixed (accepted: spec behaviour)
        if not c["res"]["O"]["ok"]:
            finding(f"e2e-unhashable-model:{json.dumps(c['O'])}", "list/set spelling fails but the model resolves it", {"kind": "triple", "O": c["O"]})
    rep.add("e2e_triples", {**info, **stats})

    mark("e2e_triples")
    # ---------------------------------------------------------------- end to end: nested notations without protection
    ust = {"cases": 0, "equal": 0, "rejected_known": 0}
    for _ in range(3000 if big else 120):
        src, ops = gen_chain(rng, 3, oracle_only=True)
        if len(ops) < 2:
            continue
        fw = rng.choice(FWS)
        place = rng.choice(["context", "group"])
        from mloda.user import Feature
        from mloda.core.api.feature_config.loader import load_features_from_config
        name = chain_name(src, ops)
        rn = run_one([Feature(name)], fw)
        O = options_chain(src, ops, "str", "feat", place, False)
        J = json_chain(src, ops, "nested", False)
        for tag, build in (("O", lambda: [to_py(O)]), ("J", lambda: load_features_from_config(json.dumps(J)))):
            ust["cases"] += 1
            rep.count(1)
            try:
                rr = run_one(build(), fw)
            except Exception as e:  # noqa: BLE001
                rr = {"ok": False, "exc": type(e).__name__, "msg": str(e)[:300], "trace": []}
            vn, vv = value_of(rn, name), value_of(rr, f"ph{len(ops)}")
            replay = {"kind": "unprotected", "fw": fw, "src": src, "ops": ops, "place": place, "which": tag, "name": name, "O": O, "J": J,
                      "res": {"ok": rr["ok"], "exc": rr.get("exc"), "msg": (rr.get("msg") or "")[:300]}}
            if vn is not None and vv is not None and same_values(vn, vv):
                ust["equal"] += 1
            elif not rr["ok"] and rr.get("exc") == "ValueError" and ("Duplicate key" in rr["msg"] or "Multiple feature groups" in rr["msg"]
                                                                       or "conflict" in rr["msg"]):
                ust["rejected_known"] += 1
                rep.finding(KF_NESTED, "nested description rejected without protected keys", replay)
                if not any(k["key"] == KF_NESTED for k in rep.kf):
                    found = True
            else:
                finding(f"e2e-unprotected:{tag}:{name}:{place}:{fw}", f"nested {tag} notation of {name} without protected keys: "
                        f"{vv if vv is not None else replay['res']} vs name notation {vn}", replay)
    rep.add("e2e_unprotected", ust)

    mark("e2e_unprotected")
    # ---------------------------------------------------------------- sub-columns: unit level and end to end
    from mloda.provider import FeatureGroup as _FG
    from mloda.user import Options as _Options
    src_cls = env("PandasDataFrame")["src"]
    cc = []
    col_pool = ["m~0", "m~1", "m", "a", "m~10", "mm~0", "a~0", "m~", "x__y~0", "x__y~1", "~0"]
    for _ in range(6000 if big else 500):
        r = rng.random()
        if r < 0.3:
            nm = rng.choice(["m", "x__y", "a", "mm", "m~"])
        elif r < 0.6:
            nm = rng.choice(["m", "m~0", "m~1", "a", "a~1", "m~1~2", "~", "m~", "~m", "x__y", "x__y~0", "b~x", "mm", "", "m~1__sum_aggr",
                             "a~0__mean_imputed__sum_aggr", "c~0", "m ~1"])
        else:
            nm = "".join(rng.choice("amb~~_") for _ in range(rng.randrange(0, 6)))
        cols = sorted(set(rng.sample(col_pool, rng.randrange(0, 9))))
        try:
            obs = [_FG.get_column_base_feature(nm), sorted(_FG.resolve_multi_column_feature(nm, set(cols))),
                   bool(src_cls.match_feature_group_criteria(nm, _Options()))]
        except Exception as e:  # noqa: BLE001
            obs = None
            finding(f"columns-exc:{nm!r}", f"sub-column helpers raised {type(e).__name__} on {nm!r}", {"kind": "columns", "name": nm, "cols": cols})
            continue
        cc.append({"name": nm, "cols": cols, "obs": obs})
    bad, info = vlib.run_cases("C16", "columns", REQ, "chk_columns",
                               [f"(({cqs(c['name'])}, {cq_list(cqs(x) for x in c['cols'])}), ({cqs(c['obs'][0])}, "
                                f"{cq_list(cqs(x) for x in c['obs'][1])}, {cq_bool(c['obs'][2])}))" for c in cc],
                               extra_defs=EXTRA, case_type="(str * list str) * (str * list str * bool)")
    rep.count(len(cc))
    for c in cc:
        if c["obs"][2] or len(c["obs"][1]) > 1:
            rep.nontrivial(("c", c["name"], c["cols"]))
    rep.add("columns", {**info, "cases": len(cc), "claimed_by_root": sum(1 for c in cc if c["obs"][2]),
                        "multi_column_resolutions": sum(1 for c in cc if len(c["obs"][1]) > 1), "disagreements": len(bad)})
    for i in bad[:5]:
        c = cc[i]
        finding(f"columns:{c['name']!r}:{c['cols']}", f"get_column_base_feature / resolve_multi_column_feature / default matcher on {c['name']!r} "
                f"with columns {c['cols']} give {c['obs']} — differs from the model", {"kind": "columns", **c})

    sst = {"cases": 0, "name_rejected_known": 0, "all_equal": 0}
    sub_terms, sub_cases = [], []
    for _ in range(600 if big else 40):
        src = rng.choice(["m~0", "m~1"])
        _, ops = gen_chain(rng, 2, oracle_only=True)
        fw = rng.choice(FWS)
        c = {"kind": "triple", "fw": fw, "src": src, "ops": ops, "sp": rng.choice(["str", "fset", "feat"]), "inner_sp": "feat",
             "place": rng.choice(["context", "group"]), "form": rng.choice(["nested", "context", "options", "mixed"]), "protect": True,
             "name": chain_name(src, ops), "k": len(ops)}
        if c["form"] in ("context", "options", "mixed") and len(ops) > 1:
            c["form"] = "nested"          # the inner part of those forms is a chained name again
        c["O"] = options_chain(src, ops, c["sp"], "feat", c["place"], True)
        c["J"] = json_chain(src, ops, c["form"], True)
        r = run_triple(c)
        sst["cases"] += 1
        rep.count(3)
        orc = oracle(src, ops)
        vn, vo, vj = value_of(r["N"], c["name"]), value_of(r["O"], f"ph{c['k']}"), value_of(r["J"], f"ph{c['k']}")
        exp_trace = [[gi, op] for gi, op in ops]
        replay = {**{k: c[k] for k in ("kind", "fw", "src", "ops", "sp", "inner_sp", "place", "form", "protect", "name", "O", "J", "k")},
                  "res": {k: {"ok": v["ok"], "exc": v.get("exc"), "msg": (v.get("msg") or "")[:200]} for k, v in r.items()}}
        if not (vo is not None and vj is not None and orc is not None and same_values(vo, orc) and same_values(vj, orc)
                and observed_trace(r["O"]) == exp_trace and observed_trace(r["J"]) == exp_trace):
            finding(f"e2e-subcol:{c['name']}:{json.dumps(c['O'])}:{fw}", f"option / JSON notation over the sub-column source {src}: options "
                    f"{vo if vo is not None else replay['res']['O']}, JSON {vj if vj is not None else replay['res']['J']}, reference "
                    f"{None if orc is None else [None if x is None else float(x) for x in orc]}", replay)
            continue
        if vn is not None and same_values(vn, orc) and observed_trace(r["N"]) == exp_trace:
            sst["all_equal"] += 1          # repaired behaviour
        elif not r["N"]["ok"] and r["N"].get("exc") == "ValueError" and "Multiple feature groups" in (r["N"].get("msg") or ""):
            sst["name_rejected_known"] += 1
            rep.finding(KF_SUBCOL, "chained name over a sub-column source is ambiguous", replay)
            if not any(k["key"] == KF_SUBCOL for k in rep.kf):
                found = True
        else:
            finding(f"e2e-subcol-name:{c['name']}:{fw}", f"chained name {c['name']} over a sub-column source: "
                    f"{vn if vn is not None else replay['res']['N']}; the option and JSON notations give {vo}", replay)
            continue
        rep.nontrivial(("s", src, ops, c["sp"], c["place"], c["form"], fw))
        sub_cases.append(c)
        sub_terms.append(f"(({cqs(c['name'])}, {cq_pv(c['O'])}, {cq_json(c['J'])}), "
                         f"{cq_list(f'({cq_nat(g)}, {cq_pv(o)})' for g, o in exp_trace)})")
    bad, info = vlib.run_cases("C16", "subcol", REQ, "chk_subcol", sub_terms, extra_defs=EXTRA,
                               case_type="(str * pv * json) * list (nat * pv)", shard=200)
    sst["model_disagreements"] = len(bad)
    for i in bad[:3]:
        c = sub_cases[i]
        finding(f"e2e-subcol-model:{c['name']}", "the model does not predict the sub-column behaviour observed",
                {k: c[k] for k in ("kind", "fw", "src", "ops", "sp", "inner_sp", "place", "form", "protect", "name", "O", "J", "k")})
    rep.add("e2e_subcolumns", {**info, **sst})
    mark("subcolumns")
    # ---------------------------------------------------------------- end to end: malformed names and invalid documents
    from mloda.user import Feature
    bn = []
    names = list(FIXED_MALFORMED) + [malformed(rng) for _ in range(4000 if big else 250)]
    names += [chain_name(s, o) for s, o in (gen_chain(rng, 3, False) for _ in range(40))]
    names += ["a__bogus_aggr", "a__bogus_imputed", "c__sum_aggr", "a__sum_aggr__bogus_imputed", "a&b__sum_aggr", "a__constant_imputed"]
    seen_n = set()
    for nm in names:
        if nm in seen_n or any(ord(ch) > 126 for ch in nm):
            continue
        seen_n.add(nm)
        r = run_one([Feature(nm)], "PandasDataFrame")
        tr = observed_trace(r)
        if r["ok"] and nm not in r["cols"]:
            tr = None
        bn.append({"name": nm, "obs": tr, "exc": r.get("exc")})
    rep.count(len(bn))
    bad, info = vlib.run_cases("C16", "run_names", REQ, "chk_run",
                               [f"({cq_pv(['Feat', c['name'], [], []])}, {cq_trace(c['obs'])})" for c in bn], extra_defs=EXTRA,
                               case_type="pv * option (list (nat * pv))")
    acc = [c for c in bn if c["obs"] is not None]
    for c in acc:
        rep.nontrivial(("n", c["name"]))
    rep.add("e2e_names", {**info, "cases": len(bn), "accepted": len(acc), "rejected": len(bn) - len(acc), "disagreements": len(bad),
                          "accepted_not_plain_renderings": [c["name"] for c in acc if py_chain_ok(c["name"]) is None][:10]})
    for i in bad[:5]:
        c = bn[i]
        finding(f"run-name:{c['name']!r}", f"run_all on the name {c['name']!r}: trace {c['obs']} (exception {c['exc']}) — the model of the parser "
                "predicts otherwise", {"kind": "run_name", **c})
    # property: whatever is accepted is a rendering of valid operations over a source column (allowing the trailing newline)
    for c in acc:
        exp = py_chain_ok(c["name"][:-1] if c["name"].endswith("\n") else c["name"])
        if exp is None or [list(x) for x in exp] != [list(x) for x in c["obs"]]:
            finding(f"run-name-accepted:{c['name']!r}", f"malformed name {c['name']!r} was resolved to {c['obs']}", {"kind": "run_name", **c})

    bd = []
    base = {"name": "x", "in_features": ["a"], "context_options": {"aggregation_type": "sum"}}
    muts: List[Any] = [base]
    for k, vals2 in (("in_features", ["a", "ab", {"a": 1}, {"a": 1, "b": 2}, [["a"]], 5, 0, None, [], ["a", "a"], ["a", "b"], [1], True]),
                     ("name", [5, None, "", True, ["x"], "a__max_aggr"]),
                     ("column_index", [0, True, "y", None, -1]),
                     ("options", [{}, {"k": 1}, 5, None]),
                     ("group_options", [{}, [], 0, {"k": 1}, [1], None]),
                     ("context_options", [{}, {"aggregation_type": "bogus"}, {"aggregation_type": ["sum"]}, "s", None,
                                          {"aggregation_type": "sum", "in_features": "b"}]),
                     ("foo", [1])):
        for v in vals2:
            muts.append({**base, k: v})
    muts.append({kk: vv for kk, vv in base.items() if kk != "name"})
    muts.append({"name": "a__mean_imputed", "options": {"k": 1}, "group_options": {}})
    from mloda.core.api.feature_config.loader import load_features_from_config

    def run_doc(m: Any) -> dict:
        loaded = False
        try:
            fs = load_features_from_config(json.dumps([m]))
            loaded = True
            r = run_one(fs, "PandasDataFrame")
        except Exception as e:  # noqa: BLE001
            r = {"ok": False, "exc": type(e).__name__, "msg": str(e)[:200], "trace": []}
        return {"doc": [m], "obs": observed_trace(r), "exc": r.get("exc"), "cols": r.get("cols"), "loaded": loaded}

    for m in muts:
        bd.append(run_doc(m))
    rep.count(len(bd))
    # witness pair for the silently dropped `options` (constant_value is outside the Coq model, so Python only)
    w_without = run_doc({"name": "a__constant_imputed", "options": {"constant_value": 9}})
    w_with = run_doc({"name": "a__constant_imputed", "options": {"constant_value": 9}, "context_options": {}})
    keep = []
    for c in bd:
        try:
            cq_json(c["doc"])
            keep.append(c)
        except ValueError:
            pass
    terms = [f"({cq_json(c['doc'])}, {cq_trace(c['obs'])})" for c in keep]
    bad, info = vlib.run_cases("C16", "run_docs", REQ, "chk_run_json", terms, extra_defs=EXTRA, case_type="json * option (list (nat * pv))")
    inv = set(range(len(keep))) - set(vlib.run_cases("C16", "run_docs_cls", REQ, "chk_doc_invalid", terms,
                                                     extra_defs=EXTRA, case_type="json * option (list (nat * pv))")[0])
    inv_computed = [keep[i] for i in sorted(inv) if keep[i]["obs"] is not None]
    rep.add("e2e_documents", {**info, "cases": len(keep), "accepted": sum(1 for c in keep if c["obs"] is not None),
                              "schema_invalid": len(inv), "schema_invalid_but_computed": [json.dumps(c["doc"]) for c in inv_computed],
                              "disagreements": len(bad)})
    for i in bad[:5]:
        c = keep[i]
        finding(f"run-doc:{json.dumps(c['doc'])}", f"run_all on the document {json.dumps(c['doc'])}: trace {c['obs']} (exception {c['exc']}) — "
                "the model predicts otherwise", {"kind": "run_doc", "doc": c["doc"], "obs": c["obs"], "exc": c["exc"]})
    for c in inv_computed:
        dropped = isinstance(c["doc"][0].get("options"), dict) and c["doc"][0].get("options") and \
            ("group_options" in c["doc"][0] or "context_options" in c["doc"][0])
        key = KF_DROPPED if dropped else KF_UNTYPED
        rep.finding(key, "schema-invalid document computed", {"kind": "run_doc", "doc": c["doc"], "obs": c["obs"], "cols": c["cols"]})
        if not any(k["key"] == key for k in rep.kf):
            found = True
    rep.add("dropped_options_witness", {"doc": w_with["doc"], "with_empty_context_options": [w_with["obs"], w_with["exc"]],
                                        "without_context_options": [w_without["obs"], w_without["cols"]]})
    if w_with["loaded"] and w_without["obs"] is not None and w_with["obs"] != w_without["obs"]:
        rep.finding(KF_DROPPED, "options ignored next to an empty context_options", {"kind": "run_doc", **w_with})
        if not any(k["key"] == KF_DROPPED for k in rep.kf):
            found = True

    mark("e2e_names_documents")
    rep.add("phase_seconds", phase_s)
    rep.notes += [
        "observed, not part of the statement: a Feature nested inside a frozenset as in_features makes run_all super-exponentially slow "
        "in the nesting depth (about 0.01 s, 0.2 s, 10 s, > 120 s for 1..4 levels; values are right) — generators keep one such level",
        "observed: a trailing newline is tolerated by the `$` of the patterns (a__sum_aggr\\n is computed as the sum of a); this is part "
        "of the proved characterisation (nlopt)",
        "observed: '&' binds loosest — a&b__op1__op2 reads as op2 over the inputs a and b__op1, so a multi-input name cannot be chained "
        "further by name when the outer group takes one input (ValueError from the in-feature count)",
        "observed: the nested JSON form turns a one-element in_features list into a plain string, which get_in_features then splits at "
        "commas; a source name containing ',' therefore differs between the notations (theorem hypothesis: no comma in the source)",
        "observed: docs/in_depth/feature-config.md lists propagate_context_keys as a field; FeatureConfig and the published schema reject it"]
    rep.add("rule", "parse: generated well-formed chains (depth 1-4, 14 atoms x 10 ops x 5 suffixes), malformed mutations, a fixed list, and ALL "
                    "strings over {a,_,-,newline} up to the stated length with 3 endings; in_features spellings; (group, name, options) "
                    "triples on 5 groups; JSON documents: valid forms and schema-violating mutations; end to end: PRNG chains over {aggr, "
                    "imputed} of depth <= 4 in three notations on Pandas and PyArrow, the same over sub-column sources, nested notations "
                    "without protected keys, malformed names and schema-invalid documents through run_all. pair: chained names of length 1-4 over the 5 groups next to in_features naming the predecessor / root / an ancestor / another column / nothing in 7 spellings, and the (group, name, options) stream; sources: chains of length 1-4 over {aggr, imputed} in up to 12 notations of the last link on Pandas and PyArrow. non-trivial = a parse that succeeds or raises, a non-"
                    "empty in-feature set, a match that is true, an accepted document, a triple whose three notations computed equal values")
    for smp in (cases[0], ic[3], {k: fc[0][k] for k in ("gi", "name", "group", "context")}, jc[3],
                {k: tc[0][k] for k in ("fw", "name", "O", "J")}, bn[0]):
        rep.sample(smp)
    from harness import srctie      # source-text tie (Props/SrcTie.v): definitions regenerated from the source text = the models
    found = (not srctie.check(rep)) or found
    if not pr.ok and not found:
        rep.finding("proof-broken", "Props/C16.v no longer checks",
                    {"failed_files": pr.failed_files, "forbidden": pr.forbidden, "log_tail": pr.log[-3000:]}, found_input=False)


def py_chain_ok(name: str) -> Optional[List[Tuple[int, str]]]:
    """Independent reading of a chained name over the universe {aggr, imputed} and the source columns: the operations in
    application order, or None when the name is not such a rendering with valid operations."""
    ops: List[Tuple[int, str]] = []
    cur = name
    while cur not in DATA:
        hit = None
        for gi in (0, 1):
            r = py_render_ok(cur, GROUP_SPECS[gi]["suf"])
            if r is not None:
                hit = (gi, r)
        if hit is None:
            return None
        gi, (op, src) = hit
        if op not in GROUP_SPECS[gi]["vocab"] or "&" in src:
            return None
        ops.append((gi, op))
        cur = src
    return list(reversed(ops))


def replay(path: str) -> int:
    import mloda.user  # noqa: F401
    r = json.load(open(path))["replay"]
    kind = r.get("kind")
    print(json.dumps({k: v for k, v in r.items() if k not in ("res",)}, indent=1)[:3000])
    if kind == "srctie":
        from harness import srctie
        srctie.replay(r)
    if kind == "parse":
        print("now:", obs_parse(r["name"], r["suf"]), "recorded:", r.get("obs"))
    elif kind == "infeat":
        print("now:", obs_infeat(r["v"]), "recorded:", r.get("obs"))
    elif kind in ("inputs", "match", "op"):
        fn = {"inputs": obs_inputs, "match": obs_match, "op": obs_op}[kind]
        print("now:", fn(r), "recorded:", r.get("obs"))
    elif kind == "json":
        print("now:", obs_json(r["doc"]), "recorded:", r.get("obs"))
    elif kind == "triple":
        res = run_triple(r)
        for k, v in res.items():
            print(k, "->", {kk: vv for kk, vv in v.items() if kk != "trace"}, "trace", observed_trace(v))
    elif kind == "pair":
        print("now:", [obs_inputs(r), obs_calc(r)], "recorded:", r.get("obs"))
    elif kind == "sources":
        now = run_src_variant(r, r["variant"])
        print("now:", {k: now.get(k) for k in ("ok", "exc", "msg", "values", "planned", "calls")})
        print("plain name:", run_src_variant(r, ["name", "feat", ["Feat", r["name"], [], []], r["name"], None]).get("values"))
    elif kind == "unprotected":
        from mloda.user import Feature
        from mloda.core.api.feature_config.loader import load_features_from_config
        print("N ->", run_one([Feature(r["name"])], r["fw"]))
        print("O ->", run_one([to_py(r["O"])], r["fw"]))
        try:
            print("J ->", run_one(load_features_from_config(json.dumps(r["J"])), r["fw"]))
        except Exception as e:  # noqa: BLE001
            print("J -> load", type(e).__name__, e)
    elif kind == "run_name":
        from mloda.user import Feature
        print("now:", run_one([Feature(r["name"])], "PandasDataFrame"))
    elif kind == "run_doc":
        from mloda.core.api.feature_config.loader import load_features_from_config
        try:
            print("now:", run_one(load_features_from_config(json.dumps(r["doc"])), "PandasDataFrame"))
        except Exception as e:  # noqa: BLE001
            print("now: load", type(e).__name__, e)
    return 0
