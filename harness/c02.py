"""C02 — returned values equal the reference evaluation of the feature graph.

Theorem (coq/Props/C02.v): in the data-plane model of merge-free plans a successful execution - in any step order and
with any routing of steps to objects - yields exactly the columns of any solution of the defining equations.
Checks on the real mloda, per generated request (merge-free DAGs over one root group or api_data, frameworks changing
between groups, nulls and large magnitudes in the source):
  oracle   ref_eval is evaluated in Coq and checked to be a `solution` (vm_compute); every returned table is compared
           with it (chk_values);
  T2       the observed run (begin order, object each step worked on, transform copies) is replayed through
           Model/DataPlane.exec in Coq: it must succeed iff the real run succeeded and reproduce the returned columns;
  T2       routing: Model/Routing.v computes from the exported plan and the begin order which object every step writes
           to / reads from (registry lookup of get_cfw_uuid, first hit over tfs_ids / required_uuids): must equal the
           observed footprints (chk_route); runs in which a deciding lookup was ambiguous (two registered objects of the
           class hold the uuid: `ambiguous_steps`, evaluated in Coq) form the round-trip defect domain.
"""
from __future__ import annotations

import json
import logging
import random
from typing import Any, Dict, List, Optional, Tuple

from lib import vlib
from lib.vlib import cq_list, cq_nat, cq_z
from harness import daggen
from harness.universe import (Universe, export_plan, table_rows, columns_of, column_values,
                              kf_tfs_partial_requirement, kf_framework_roundtrip, kf_tfs_missing)
from harness.orch import GateListener, run_observed, install
from harness.c08 import api_variant
from harness import routing

LEVEL = "proof"
logging.disable(logging.CRITICAL)
REQ = ["MV.Spec.RefEval", "MV.Spec.RefEvalWf", "MV.Model.DataPlane", "MV.Model.Routing"]
CLS = {"PyArrowTable": 1, "PandasDataFrame": 2, "PythonDictFramework": 3}

EXTRA = """
Definition obs_ok (e : env) (obs : list (nat * column)) : bool :=
  forallb (fun kv => match lookup e (fst kv) with Some c => col_eqb c (snd kv) | None => false end) obs.
(* n rows, source, definitions, observed (requested feature, returned column) *)
Definition chk_values (c : (nat * env * list fdef) * list (nat * column)) : bool :=
  match c with ((n, src, defs), obs) =>
    let e := ref_eval n src defs in wf_request src defs && solution n src defs e && obs_ok e obs end.
(* replay of the observed run through the data-plane model: ok? + returned columns *)
Definition chk_exec (c : (nat * env * list fdef * list action) * (bool * list (nat * nat * column))) : bool :=
  match c with ((n, src, defs, acts), (ok, obs)) =>
    let e := ref_eval n src defs in
    forallb (action_ok src defs e) acts &&
    match exec n [] acts with
    | Ok s => ok && forallb (fun x => match x with (o, f, col) =>
                        match get_obj s o with Some t => match lookup t f with Some c => col_eqb c col | None => false end | None => false end end) obs
    | _ => negb ok
    end end.
"""


def opt_value(opt: Optional[Dict[str, Any]]) -> Optional[str]:
    if not opt:
        return None
    return str(next(iter(opt.values())))


def instances(spec: Dict[str, Any]) -> Tuple[Dict[Tuple[str, Optional[str]], int], Dict[str, Optional[str]]]:
    """Feature instances (name, option value) reachable from the request; the option of a requested feature propagates
    to its inputs.  Returns ids and the option value of every requested name."""
    defs = {n: d for g in spec["groups"] if g["kind"] == "derived" for n, d in g["features"].items()}
    ids: Dict[Tuple[str, Optional[str]], int] = {}
    req_opt: Dict[str, Optional[str]] = {}
    todo: List[Tuple[str, Optional[str]]] = []
    for r in spec["request"]:
        name, opt = (r, None) if isinstance(r, str) else (r["name"], opt_value(r.get("opt")))
        req_opt[name] = opt
        todo.append((name, opt))
    # without options every feature of the spec gets an id (as before); with options only reachable instances
    if all(v is None for v in req_opt.values()):
        for g in spec["groups"]:
            for f in (g["cols"] if g["kind"] in ("root", "api") else g["features"]):
                ids.setdefault((f, None), len(ids))
    while todo:
        name, opt = todo.pop()
        if (name, opt) in ids and name not in defs:
            continue
        ids.setdefault((name, opt), len(ids))
        for i in defs.get(name, {}).get("inputs", []):
            if (i, opt) not in ids or i in defs:
                if (i, opt) not in ids:
                    ids[(i, opt)] = len(ids)
                    todo.append((i, opt))
    return ids, req_opt


def cq_col(col: List[Optional[int]]) -> str:
    return cq_list("None" if v is None else f"(Some {cq_z(v)})" for v in col)


def norm(v: Any) -> Optional[int]:
    if v is None:
        return None
    if isinstance(v, float):
        if v != v:
            return None
        if v == int(v):
            return int(v)
        raise ValueError(f"non-integral value {v}")
    return int(v)


def cq_src(ids: Dict[Tuple[str, Optional[str]], int], root: Dict[str, Any]) -> str:
    items = []
    for (name, opt), i in ids.items():
        cols = root["cols_by_opt"][opt] if (opt is not None and root.get("cols_by_opt")) else root["cols"]
        if name in cols:
            items.append(f"({cq_nat(i)}, {cq_col([norm(x) for x in cols[name]])})")
    return cq_list(items)


def cq_defs(ids: Dict[Tuple[str, Optional[str]], int], spec: Dict[str, Any], only: Optional[List[Tuple[str, Optional[str]]]] = None) -> str:
    defs = {n: d for g in spec["groups"] if g["kind"] == "derived" for n, d in g["features"].items()}
    # dependency order (inputs before users), so that wf_request holds and C02ref_ref_eval_solution_topo applies
    todo = [(name, opt) for (name, opt) in ids if name in defs and (only is None or (name, opt) in only)]
    placed: List[Tuple[str, Optional[str]]] = []
    while todo:
        ready = [k for k in todo if all((x not in defs) or ((x, k[1]) in placed) or ((x, k[1]) not in todo) for x in defs[k[0]]["inputs"])]
        if not ready:
            ready = todo[:1]
        for k in ready:
            placed.append(k)
            todo.remove(k)
    out = []
    for (name, opt) in placed:
        d = defs[name]
        out.append(f"{{| fname := {cq_nat(ids[(name, opt)])}; inputs := {cq_list(cq_nat(ids[(x, opt)]) for x in d['inputs'])}; "
                   f"c0 := {cq_z(d['c0'])}; coefs := {cq_list(cq_z(c) for c in d['coefs'])} |}}")
    return cq_list(out)


def gen(rng: random.Random) -> Dict[str, Any]:
    if rng.random() < 0.2:
        return daggen.gen_option_groups(rng)
    spec = daggen.gen_ladder(rng, n_rows=rng.randrange(1, 5)) if rng.random() < 0.12 else daggen.gen_single_root(rng, n_rows=rng.randrange(1, 5))
    root = spec["groups"][0]
    for k, v in root["cols"].items():
        for i in range(len(v)):
            r = rng.random()
            if r < 0.12:
                v[i] = None
            elif r < 0.2:
                v[i] = rng.choice([2 ** 31 - 1, -(2 ** 31), 2 ** 40, -(2 ** 40) + 1])
    # a column that is entirely null cannot be typed by pandas/pyarrow: keep at least one value
    for k, v in root["cols"].items():
        if all(x is None for x in v):
            v[0] = 1
    if rng.random() < 0.25 and all(g.get("cfw") for g in spec["groups"]):
        spec = api_variant(spec)
        if rng.random() < 0.6:
            # a second api data key, listed after the real one, repeating some of its column names with other values
            # (e.g. an audit copy): the columns stay bound to the FIRST key providing them
            rcols = spec["groups"][0]["cols"]
            shared = [c for c in rcols if rng.random() < 0.7] or [next(iter(rcols))]
            decoy = {c: [(-1000 - i) for i in range(len(rcols[c]))] for c in shared}
            if rng.random() < 0.5:
                decoy["zz_extra"] = [7] * len(next(iter(rcols.values())))
            spec["api_decoys"] = [{"key": "K_decoy", "cols": decoy}]
    return spec


def one(spec: Dict[str, Any]) -> Dict[str, Any]:
    ids, req_opt = instances(spec)
    root = spec["groups"][0]
    n = len(next(iter(root["cols"].values())))
    gl = GateListener()
    uni = Universe(spec, gl)
    rec: Dict[str, Any] = {"spec": spec, "n": n}
    try:
        sess = uni.prepare()
    except Exception as e:  # noqa: BLE001
        rec["prepare_exc"] = str(e)[:160]
        return rec
    plan = export_plan(sess, uni)
    rec["plan"] = {k: v for k, v in plan.items() if k != "_ren"}
    o = run_observed(sess, ren=plan["_ren"])
    plan = routing.with_run_orders(plan, o.get("orders"))
    rec["status"] = o["status"]
    rec["exc"] = str(o.get("exc"))[-200:] if o["status"] == "raised" else None
    obs: List[Tuple[int, List[Optional[int]]]] = []
    bad_shape = None
    if o["status"] == "ok":
        requested = [r_ if isinstance(r_, str) else r_["name"] for r_ in spec["request"]]
        seen: Dict[str, int] = {}
        for t in o["result"]:
            for c in columns_of(t):
                seen[c] = seen.get(c, 0) + 1
                try:
                    obs.append((ids.get((c, req_opt.get(c)), 999), [norm(v) for v in column_values(t, c)]))
                except ValueError as e:
                    bad_shape = f"column {c}: {e}"
        if sorted(seen) != sorted(set(requested)) or any(v != 1 for v in seen.values()):
            bad_shape = f"returned columns {seen} for request {requested}"
    rec["obs"] = obs
    rec["bad_shape"] = bad_shape
    # actions for the data-plane model, from the observed begin order and footprints
    acts = []
    obs_exec: List[Tuple[int, int, List[Optional[int]]]] = []
    steps = {s["sid"]: s for s in plan["steps"]}
    for sid in o["begin_order"]:
        s = steps[sid]
        foot = o["foot"].get(sid)
        if foot is None:
            continue
        w, reads = foot
        if s["kind"] == "FG":
            sopt = None
            for o_ in s.get("opts") or []:
                for k_, v_ in o_:
                    if k_ == root.get("opt_key"):
                        sopt = v_
            if s["group"] == root["name"]:
                sub = {k: v for k, v in ids.items() if k[1] == sopt}
                acts.append(f"ARoot {cq_nat(w)} {cq_src(sub, root)}")
            else:
                acts.append(f"ACalc {cq_nat(w)} {cq_defs(ids, spec, only=[(n_, sopt) for n_ in dict.fromkeys(s['names'])])}")
                if s["requested"] and o["status"] == "ok":
                    pass
        elif s["kind"] == "TFS":
            src_obj = [r for r in reads if r != w]
            acts.append(f"ACopy {cq_nat(src_obj[0] if src_obj else w)} {cq_nat(w)}")
    rec["acts"] = acts
    rec["ids"] = ids
    # routing model input: the begun steps in begin order (Model/Routing.rstep) and the observed footprints
    def payload(s: Dict[str, Any]) -> Tuple[str, str]:
        sopt = None
        for o_ in s.get("opts") or []:
            for k_, v_ in o_:
                if k_ == root.get("opt_key"):
                    sopt = v_
        if s["group"] == root["name"]:
            return f"(Some {cq_src({k: v for k, v in ids.items() if k[1] == sopt}, root)})", "[]"
        return "None", cq_defs(ids, spec, only=[(n_, sopt) for n_ in dict.fromkeys(s["names"])])
    rec["route"] = routing.terms(plan, o["begin_order"], o["foot"], payload)
    return rec


def run(rep: vlib.Reporter, tier: str, seed: int) -> None:
    rng = random.Random(seed * 1039 + 2)
    install()
    pr = vlib.build_props("C02")
    rep.proof(pr)
    pr2 = vlib.build_props("C02ref")     # ref_eval is a solution for every well-formed request; solutions are unique
    rep.proof(pr2)
    pr3 = vlib.build_props("Routing")    # registry lookup / routing of steps to objects, composed with the data plane
    rep.proof(pr3)
    pr.ok = pr.ok and pr2.ok and pr3.ok
    pr.failed_files += pr2.failed_files + pr3.failed_files
    rep.coverage["trusted_base"] += [
        "Spec/RefEval.v is the reference evaluation (the oracle of record, evaluated by vm_compute and checked to be a solution of "
        "the defining equations per case); Model/DataPlane.v is a hand-written model of run_calculation / TransformFrameworkStep on "
        "abstract tables, tied by replaying observed runs",
        "Model/Routing.v is a hand-written model of CfwManager.get_cfw_uuid and ComputeFrameworkExecutor.prepare_execute_step / "
        "prepare_tfs_right_cfw (which object a step works on); tied per run: the footprints it computes from the exported plan "
        "(with the iteration orders of the real required_uuids / tfs_ids sets) and the begin order must equal the observed ones; "
        "the planner is not modelled here (plans are exported); framework conversion is the identity on abstract tables (C14); "
        "values inside pandas/pyarrow kernels are trusted",
        "generated calculations compute c0 + sum coef_i * input_i on integers (nulls propagate)"]
    big = tier == "thorough"
    recs = [one(gen(rng)) for _ in range(1500 if big else 150)]
    found = False
    val_terms, val_idx, ex_terms, ex_idx = [], [], [], []
    dist: Dict[str, Any] = {"requests": len(recs), "ok": 0, "raised": 0, "prepare_rejected": 0, "with_tfs": 0, "api_roots": 0,
                            "with_nulls": 0, "planner_kf": 0, "groups_hist": {}}
    for i, r in enumerate(recs):
        spec = r["spec"]
        if "prepare_exc" in r:
            dist["prepare_rejected"] += 1
            rep.finding(f"prepare:{json.dumps(spec, sort_keys=True)}", f"merge-free request rejected at prepare: {r['prepare_exc']}",
                        {"kind": "prepare", "spec": spec})
            found = True
            continue
        ids, root = r["ids"], spec["groups"][0]
        dist[r["status"]] = dist.get(r["status"], 0) + 1
        dist["with_tfs"] += any(s["kind"] == "TFS" for s in r["plan"]["steps"])
        dist["api_roots"] += root["kind"] == "api"
        dist["api_with_decoy_key"] = dist.get("api_with_decoy_key", 0) + bool(spec.get("api_decoys"))
        dist["with_nulls"] += any(v is None for c in root["cols"].values() for v in c)
        dist["option_groups"] = dist.get("option_groups", 0) + bool(root.get("cols_by_opt"))
        g = len(spec["groups"])
        dist["groups_hist"][g] = dist["groups_hist"].get(g, 0) + 1
        r["kf_static"] = bool(kf_tfs_partial_requirement(r["plan"]) or kf_tfs_missing(r["plan"]))
        r["kf_py_roundtrip"] = bool(kf_framework_roundtrip(r["plan"]))
        if g >= 3:
            rep.nontrivial(("spec", spec))
        head = f"({cq_nat(r['n'])}, {cq_src(ids, root)}, {cq_defs(ids, spec)}"
        if r["status"] == "ok":
            val_idx.append(i)
            val_terms.append(f"({head}), {cq_list('(' + cq_nat(f) + ', ' + cq_col(c) + ')' for f, c in r['obs'])})")
        ex_idx.append(i)
        ex_terms.append(f"({head}, {cq_list('(' + a + ')' for a in r['acts'])}), ({'true' if r['status'] == 'ok' else 'false'}, []))")
    bad_v, info_v = vlib.run_cases("C02", "values", REQ, "chk_values", val_terms, extra_defs=EXTRA,
                                   case_type="(nat * env * list fdef) * list (nat * column)", shard=100) if val_terms else ([], {})
    bad_e, info_e = vlib.run_cases("C02", "exec", REQ, "chk_exec", ex_terms, extra_defs=EXTRA,
                                   case_type="(nat * env * list fdef * list action) * (bool * list (nat * nat * column))", shard=100)
    bad_e_set = set(ex_idx[k] for k in bad_e)
    rt_idx = [i for i, r in enumerate(recs) if r.get("route")]
    bad_r, amb_k, info_r = routing.check("C02", "route", [recs[i]["route"] for i in rt_idx], requires=REQ)
    rt_terms = rt_idx
    amb_set = set(rt_idx[k] for k in amb_k)
    py_rt = set(i for i in rt_idx if recs[i].get("kf_py_roundtrip"))
    # the round-trip domain is decided in Coq on the run itself (a deciding registry lookup with two matching objects);
    # the static Python predicate is only the fallback for runs the routing model does not cover
    # the two static planner-defect domains are decided in Coq (Model/PlanDefects.v classify_plan, related to the planner model by
    # PlannerB_defects_sound_partial) on the exported plan; the Python predicates of harness/universe.py are only compared (counted)
    from harness import planner_b
    with_plan = [i for i, r in enumerate(recs) if "prepare_exc" not in r and r.get("plan")]
    coq_cls = dict(zip(with_plan, planner_b.classify([recs[i]["plan"] for i in with_plan], rep_prefix="C02")))
    dist["static_domain_coq"] = 0
    dist["static_domain_python_only"] = 0
    dist["static_domain_coq_only"] = 0
    for i, r in enumerate(recs):
        if "prepare_exc" in r:
            continue
        coq_static = bool(coq_cls.get(i, set()) & {"C01-tfs-missing", "C01-tfs-partial-requirement"})
        dist["static_domain_coq"] += coq_static
        dist["static_domain_python_only"] += bool(r.get("kf_static")) and not coq_static
        dist["static_domain_coq_only"] += coq_static and not r.get("kf_static")
        r["kf_static"] = coq_static
        r["kf"] = bool(r.get("kf_static") or (i in amb_set if r.get("route") else r.get("kf_py_roundtrip")))
        dist["planner_kf"] += r["kf"]

    def report(i: int, what: str, key: str) -> bool:
        r = recs[i]
        replay = {"kind": "e2e", "spec": r["spec"], "status": r["status"], "exc": r.get("exc"), "obs": r.get("obs")}
        if r.get("kf"):
            rep.finding("C02-planner-defect-domains", what, replay)
            return False
        rep.finding(key, what, replay)
        return True

    for k in bad_v:
        i = val_idx[k]
        found |= report(i, f"returned values differ from the reference evaluation (request {recs[i]['spec']['request']})",
                        f"values:{json.dumps(recs[i]['spec'], sort_keys=True)}")
    for i, r in enumerate(recs):
        if "prepare_exc" in r:
            continue
        key = json.dumps(r["spec"], sort_keys=True)
        if r["status"] != "ok":
            found |= report(i, f"run of a merge-free request {r['status']}: {r['exc']}", f"run:{key}")
        elif r["bad_shape"]:
            found |= report(i, f"result shape: {r['bad_shape']}", f"shape:{key}")
        if i in bad_e_set and r["status"] == "ok":
            found |= report(i, "the observed run (step order, objects, copies) is not an execution of the data-plane model with the "
                               "same outcome", f"exec-model:{key}")
    for k in bad_r:
        i = rt_idx[k]
        found |= report(i, "the objects the steps worked on (observed footprints) are not the ones Model/Routing.v computes from the plan "
                           "and the begin order", f"route-model:{json.dumps(recs[i]['spec'], sort_keys=True)}")
    rep.add("routing_model", {**info_r, "cases": len(rt_terms), "disagreements": len(bad_r), "ambiguous_lookup_runs (Coq)": len(amb_set),
                              "python kf_framework_roundtrip": len(py_rt), "ambiguous but not python-kf": len(amb_set - py_rt),
                              "python-kf but not ambiguous at run time": len(py_rt - amb_set)})
    rep.count(len(recs))
    rep.add("distribution", dist)
    rep.add("values_vs_ref_eval", {**info_v, "cases": len(val_terms), "disagreements": len(bad_v)})
    rep.add("exec_model", {**info_e, "cases": len(ex_terms), "disagreements": len(bad_e)})
    rep.add("traces_validated_against_impl", len(ex_terms))
    # requested source features next to a consumer that needs a join of that source (harness/c02_joinreq.py)
    from harness import c02_joinreq
    found = c02_joinreq.family(rep, random.Random(seed * 41 + 3), big) or found
    rep.add("rule", "merge-free request DAGs (harness/daggen.gen_single_root): 1 root group (DataCreator or api_data, 1-3 integer columns "
                    "with nulls and large magnitudes, 1-4 rows), 1-4 derived groups x 1-3 features, frameworks from {PyArrow, Pandas, "
                    "PythonDict} changing between groups, 1-3 requested features. non-trivial = at least 3 groups")
    ok_recs = [r for r in recs if r.get("status") == "ok"]
    if ok_recs:
        rep.sample({"spec": ok_recs[0]["spec"], "returned": ok_recs[0]["obs"], "actions": ok_recs[0]["acts"]})
    if not pr.ok and not found:
        rep.finding("proof-broken", "Props/C02.v no longer checks",
                    {"failed_files": pr.failed_files, "forbidden": pr.forbidden, "log_tail": pr.log[-3000:]}, found_input=False)


def replay(path: str) -> int:
    r = json.load(open(path))["replay"]
    install()
    if r.get("kind") == "joinreq":
        from harness import c02_joinreq
        return c02_joinreq.replay(r)
    rec = one(r["spec"])
    print(json.dumps({k: rec.get(k) for k in ("status", "exc", "obs", "bad_shape", "acts")}, indent=1, default=str))
    from harness.universe import ref_eval_single_root
    print("python reference:", ref_eval_single_root(r["spec"]))
    return 0
