"""C09 — after a run nothing is left behind: no workers, no stored datasets; no premature drop.

Theorems: coq/Props/C09.v over Model/Lifecycle.v (children tracker, deferred drops, join on every exit).
T2 (unit level, vm_compute): the real ComputeFramework.add_already_calculated_children_and_drop_if_possible and
DataLifecycleManager.drop_data_for_finished_cfws on generated children sets / processing sequences vs the model.
End to end (what a theorem cannot exhibit): generated plans x modes {SYNC, THREADING, MULTIPROCESSING} x (success |
injected failure at a step) x {run, stream_run fully drained, stream abandoned}, repeated against ONE long-lived Arrow
Flight server; after every API call: threads started by the call have ended, no worker/manager process is left, and
the set of datasets in the store is what it was before the call.
Protocol level (coq/Props/Worker.v, Worker_exit_cleanup_partial over Model/Worker.v): real THREADING / MULTIPROCESSING runs on
every exit path (normal, raised, abandoned stream, failure inside the finally block) are observed and replayed as traces; judged:
processes / threads / Flight keys left (harness/worker_proto.py, focus C09).
Key identity across runs (coq/Model/FlightKeys.v, Props/C09.v C09_swept_run_leaves_nothing ... C09_rerun_checker_sound): ONE prepared
session run 2-4 times in MULTIPROCESSING (run / stream / abandoned stream / failing run mixes) against the long-lived server; the store is
listed after every call, the key history (uuid4 keys vs the transform step's uuid that repeats in every run, worker uploads / drops,
the end-of-run sweep) is replayed against the model (harness/c09_rerun.py, chk_rerun).
"""
from __future__ import annotations

import gc
import json
import logging
import multiprocessing
import random
import threading
import time
from typing import Any, Dict, List, Optional, Set, Tuple

from lib import vlib
from lib.vlib import cq_bool, cq_list, cq_nat
from harness.universe import Universe, export_plan, kf_tfs_partial_requirement, kf_framework_roundtrip, kf_tfs_missing
from harness.orch import GateListener, run_observed, install, flight_server, stop_flight_server, flight_keys
from harness.c01 import gen_specs
from harness.c06 import kf_mp_transform_non_arrow
from harness import worker_proto
from harness import c09_rerun
from harness import c09_artifacts

LEVEL = "proof"
logging.disable(logging.CRITICAL)
REQ = ["MV.Model.Orch", "MV.Model.Lifecycle"]

EXTRA = """
(* children, has uploads, sequence of processed feature sets, observed (dropped?, last return code) *)
Definition ret_code (r : bool + list nat) : nat := match r with inl true => 1 | inl false => 0 | inr _ => 2 end.
Fixpoint run_seq (o : cobj) (fss : list (list nat)) (acc : list (bool * nat)) : list (bool * nat) :=
  match fss with [] => rev acc | fs :: t => let r := add_children o fs in run_seq (fst r) t ((dropped (fst r), ret_code (snd r)) :: acc) end.
Definition obs_eqb (a b : list (bool * nat)) : bool :=
  Nat.eqb (List.length a) (List.length b) && forallb (fun xy => Bool.eqb (fst (fst xy)) (fst (snd xy)) && Nat.eqb (snd (fst xy)) (snd (snd xy))) (combine a b).
Definition chk_tracker (c : (list nat * bool * list (list nat)) * list (bool * nat)) : bool :=
  match c with ((ch, up, fss), obs) =>
    let o := {| children := ch; tracker := []; dropped := false; uploads := if up then 1 else 0 |} in
    obs_eqb (run_seq o fss []) obs end.
Definition set_eqb (a b : list nat) := subset a b && subset b a.
Definition chk_deferred (c : (tracked * list nat) * (list nat * list nat)) : bool :=
  match c with ((t, fin), (left_keys, dropped_keys)) =>
    let r := drop_finished t fin in set_eqb (map fst (fst r)) left_keys && set_eqb (snd r) dropped_keys end.
"""


def tracker_cases(rng: random.Random, n: int) -> List[Tuple[str, dict]]:
    from uuid import UUID
    from mloda_plugins.compute_framework.base_implementations.pyarrow.table import PyArrowTable
    from mloda.core.abstract_plugins.components.parallelization_modes import ParallelizationMode
    out = []
    pool = [UUID(int=i + 1) for i in range(8)]
    for _ in range(n):
        ch = rng.sample(range(8), rng.randrange(1, 6))
        up = rng.random() < 0.3
        fss = [rng.sample(range(8), rng.randrange(1, 4)) for _ in range(rng.randrange(1, 6))]
        cfw = PyArrowTable(ParallelizationMode.SYNC, frozenset(pool[i] for i in ch), UUID(int=999))
        cfw.data = "some-data"
        if up:
            cfw.object_ids.append("x")
        obs = []
        for fs in fss:
            r = cfw.add_already_calculated_children_and_drop_if_possible({pool[i] for i in fs}, None)
            code = 1 if r is True else 0 if r is False else 2
            obs.append((cfw.data is None, code))
            if cfw.data is None:
                cfw.data = None
        term = (f"(({cq_list(cq_nat(x) for x in ch)}, {cq_bool(up)}, {cq_list(cq_list(cq_nat(x) for x in fs) for fs in fss)}), "
                f"{cq_list('(' + cq_bool(d) + ', ' + cq_nat(c) + ')' for d, c in obs)})")
        out.append((term, {"children": ch, "uploads": up, "seq": fss, "obs": obs}))
    return out


def deferred_cases(rng: random.Random, n: int) -> List[Tuple[str, dict]]:
    from uuid import UUID
    from mloda.core.runtime.data_lifecycle_manager import DataLifecycleManager
    out = []
    for _ in range(n):
        tracked = {k: rng.sample(range(10), rng.randrange(1, 4)) for k in rng.sample(range(20, 30), rng.randrange(1, 5))}
        fin = rng.sample(range(10), rng.randrange(0, 9))

        class Fake:
            def __init__(self) -> None:
                self.dropped = False

            def drop_last_data(self, location: Any = None) -> None:
                self.dropped = True
        dlm = DataLifecycleManager()
        coll = {UUID(int=k): Fake() for k in tracked}
        dlm.track_data_to_drop = {UUID(int=k): {UUID(int=v + 100) for v in vs} for k, vs in tracked.items()}
        dlm.drop_data_for_finished_cfws({UUID(int=v + 100) for v in fin}, coll, None)  # type: ignore[arg-type]
        left = sorted(k.int for k in dlm.track_data_to_drop)
        dropped = sorted(k.int for k, f in coll.items() if f.dropped)
        t = cq_list(f"({cq_nat(k)}, {cq_list(cq_nat(v) for v in vs)})" for k, vs in tracked.items())
        term = f"(({t}, {cq_list(cq_nat(v) for v in fin)}), ({cq_list(cq_nat(k) for k in left)}, {cq_list(cq_nat(k) for k in dropped)}))"
        out.append((term, {"tracked": tracked, "finished": fin, "left": left, "dropped": dropped}))
    return out


def leftovers(base_threads: Set[Any], base_procs: Set[int], keys_before: Optional[Set[str]]) -> Dict[str, Any]:
    # step threads (target thread_worker) are joined by ExecutionOrchestrator.join() before the call returns: measured at once,
    # without the grace period granted to process reaping and queue feeder threads
    at_return = [t.name for t in threading.enumerate() if t not in base_threads and t.is_alive() and "thread_worker" in t.name]
    gc.collect()
    deadline = time.time() + 3.0
    while time.time() < deadline:
        th = [t for t in threading.enumerate() if t not in base_threads and t.is_alive()]
        pr = [p for p in multiprocessing.active_children() if p.pid not in base_procs]
        if not th and not pr:
            break
        time.sleep(0.02)
    th = [t for t in threading.enumerate() if t not in base_threads and t.is_alive()]
    pr = [p for p in multiprocessing.active_children() if p.pid not in base_procs]
    res: Dict[str, Any] = {"threads": sorted({t.name.split("-")[0] for t in th}), "n_threads": len(th), "procs": len(pr),
                           "step_threads_alive_at_return": len(at_return)}
    if keys_before is not None:
        res["new_keys"] = len(flight_keys() - keys_before)
    return res


def e2e(spec: Dict[str, Any], mode_name: str, variant: str, fail: Optional[Tuple[str, str]]) -> Dict[str, Any]:
    from mloda.user import ParallelizationMode
    mode = {"SYNC": {ParallelizationMode.SYNC}, "THREADING": {ParallelizationMode.THREADING},
            "MULTIPROCESSING": {ParallelizationMode.MULTIPROCESSING}}[mode_name]
    uni = Universe(spec, GateListener())
    sess = uni.prepare()
    if fail:
        uni.fail.add(fail)
    kw: Dict[str, Any] = {}
    keys_before = None
    if mode_name == "MULTIPROCESSING":
        kw["flight_server"] = flight_server()
        keys_before = flight_keys()
    base_threads = set(threading.enumerate())
    base_procs = {p.pid for p in multiprocessing.active_children()}
    status, exc = "ok", None
    try:
        if variant == "run":
            sess.run(parallelization_modes=mode, **kw)
        elif variant == "stream":
            list(sess.stream_run(parallelization_modes=mode, **kw))
        else:                                       # abandoned after the first item (or at once)
            g = sess.stream_run(parallelization_modes=mode, **kw)
            try:
                next(g)
            except StopIteration:
                pass
            g.close()
            del g
    except Exception as e:  # noqa: BLE001
        status, exc = "raised", str(e)[-200:]
    lo = leftovers(base_threads, base_procs, keys_before)      # measured while the prepared session is still referenced
    # whatever was left is reported above; make sure it cannot block later runs or the exit of this check
    for p in multiprocessing.active_children():
        if p.pid not in base_procs:
            try:
                p.terminate()
                p.join(2)
                if p.is_alive():
                    p.kill()
            except Exception:  # noqa: BLE001
                pass
    del sess
    return {"status": status, "exc": exc, **lo}


def run(rep: vlib.Reporter, tier: str, seed: int) -> None:
    rng = random.Random(seed * 1033 + 9)
    install()
    pr = vlib.build_props("C09")
    rep.proof(pr)
    rep.coverage["trusted_base"] += [
        "hand-written Model/Lifecycle.v of the children tracker, deferred drops and join_all; tied at unit level to "
        "ComputeFramework.add_already_calculated_children_and_drop_if_possible and DataLifecycleManager.drop_data_for_finished_cfws",
        "process reaping, feeder threads of multiprocessing.Queue, manager shutdown, sockets and the Arrow Flight store contents are "
        "runtime behaviour no model can exhibit: observed after every API call (threading.enumerate, "
        "multiprocessing.active_children, FlightServer.list_flight_infos), not proved",
        "the relation between children_if_root and the steps that really look an object up is produced by the planner / "
        "prepare_execute_step and is not modelled",
        "hand-written Model/FlightKeys.v (server key set, the two client helpers, which keys are uuid4 and which are a transform step's "
        "uuid, who uploads / drops / sweeps in which process); tied by key histories of re-run sessions observed through wrappers "
        "around FlightServer.upload_table / drop_tables (requested keys, process, order at the server) and FlightServer.list_flight_infos; "
        "the Arrow Flight server itself (do_put / drop_table on a dict) is assumed to do what it is asked"]
    big = tier == "thorough"
    found = False
    # ---- protocol level: every exit path of real THREADING / MULTIPROCESSING runs as a trace of Model/Worker.v (join / terminate
    # order, store keys), plus the judge lines about processes / threads / keys left
    if worker_proto.report(rep, "C09", tier, seed, n_specs=(40 if big else 5)):
        found = True
    tc = tracker_cases(rng, 4000 if big else 500)
    bad, info1 = vlib.run_cases("C09", "tracker", REQ, "chk_tracker", [t for t, _ in tc], extra_defs=EXTRA,
                                case_type="(list nat * bool * list (list nat)) * list (bool * nat)")
    for i in bad[:5]:
        rep.finding(f"tracker:{json.dumps(tc[i][1])}", f"children tracker of the real compute framework differs from the model on {tc[i][1]}",
                    {"kind": "tracker", **tc[i][1]})
        found = True
    dc = deferred_cases(rng, 3000 if big else 400)
    bad, info2 = vlib.run_cases("C09", "deferred", REQ, "chk_deferred", [t for t, _ in dc], extra_defs=EXTRA,
                                case_type="(tracked * list nat) * (list nat * list nat)")
    for i in bad[:5]:
        rep.finding(f"deferred:{json.dumps(dc[i][1])}", f"drop_data_for_finished_cfws differs from the model on {dc[i][1]}", {"kind": "deferred", **dc[i][1]})
        found = True
    rep.count(len(tc) + len(dc))
    for _, c in tc:
        if any(d for d, _ in c["obs"]):
            rep.nontrivial(("t", c["children"], c["seq"]))
    rep.add("unit_level", {"tracker": {**info1, "cases": len(tc), "dropped_cases": sum(1 for _, c in tc if any(d for d, _ in c["obs"]))},
                           "deferred": {**info2, "cases": len(dc)}})

    if c09_artifacts.report(rep, tier, seed):      # family `artifacts`: the finally statement before join() (Props/C09artifacts.v)
        found = True
    specs, gstats = gen_specs(rng, 60 if big else 10)
    from harness import daggen
    specs += [daggen.gen_shared_upload(rng) for _ in range(8 if big else 2)]   # one uploaded table, several readers, the last one late
    dist: Dict[str, Any] = {"specs": len(specs), "runs": 0, "by_mode": {}, "left_threads": {}, "left_procs": 0,
                            "runs_leaving_store_keys": 0, "premature_drop_errors": 0}
    reps = 3 if big else 1
    # planner-defect domains: decided in Coq (Model/PlanDefects.v classify_plan) on the exported plans, one batch
    from harness import planner_b
    pre = []
    for spec in specs:
        u0 = Universe(spec, GateListener())
        pre.append(export_plan(u0.prepare(), u0))
        u0.dispose()
    planner_b.classify_prefetch(pre, rep_prefix="C09")
    for spec in specs:
        uni = Universe(spec, GateListener())
        plan = export_plan(uni.prepare(), uni)
        # the plan predicates describe link-free plans; in a joined plan both sources list the consumer as child by design (the run-time
        # lookup follows the merge relation, Model/RoutingJ.v): the shared-upload family lies outside every recorded domain
        planner_kf = False if spec.get("family") == "shared_upload" else bool(planner_b.classify_cached(plan, rep_prefix="C09"))
        fg = [s for s in plan["steps"] if s["kind"] == "FG"]
        fails: List[Optional[Tuple[str, str]]] = [None] + [(s["group"], s["names"][0]) for s in (fg if big else fg[-1:])]
        for mode_name in ("SYNC", "THREADING", "MULTIPROCESSING"):
            mp_abandon_quota = 3
            for variant in (("run", "stream", "abandon") if mode_name != "MULTIPROCESSING" or big or specs.index(spec) < mp_abandon_quota
                            else ("run",)):
                for fail in fails:
                    for _ in range(reps):
                        r = e2e(spec, mode_name, variant, fail)
                        dist["runs"] += 1
                        rep.count(1)
                        k = f"{mode_name}/{variant}/{'fail' if fail else 'ok'}:{r['status']}"
                        dist["by_mode"][k] = dist["by_mode"].get(k, 0) + 1
                        rep.nontrivial(("e", spec["request"], len(plan["steps"]), mode_name, variant, fail))
                        replay = {"kind": "e2e", "spec": spec, "mode": mode_name, "variant": variant, "fail": fail, "result": r}
                        key = json.dumps([spec, mode_name, variant, fail], sort_keys=True)
                        if r["n_threads"]:
                            for n in r["threads"]:
                                dist["left_threads"][n] = dist["left_threads"].get(n, 0) + 1
                            if r["threads"] == ["QueueFeederThread"] and mode_name == "MULTIPROCESSING":
                                rep.finding("C09-mp-queue-feeder-threads-left", f"threads left: {r['threads']}", replay)
                            else:
                                rep.finding(f"threads:{key}", f"{mode_name}/{variant}: threads started by the call are still alive: {r['threads']}", replay)
                                found = True
                        if r.get("step_threads_alive_at_return"):
                            dist["step_threads_alive_at_return"] = dist.get("step_threads_alive_at_return", 0) + 1
                            rep.finding(f"threads-at-return:{key}", f"{mode_name}/{variant}: {r['step_threads_alive_at_return']} step thread(s) "
                                        "(thread_worker) still running when the call returned", replay)
                            found = True
                        if r["procs"]:
                            dist["left_procs"] += 1
                            rep.finding(f"procs:{key}", f"{mode_name}/{variant}: {r['procs']} worker/manager process(es) still alive after the call", replay)
                            found = True
                        if r.get("new_keys"):
                            dist["runs_leaving_store_keys"] += 1
                            rep.finding("C09-flight-store-leak", f"{r['new_keys']} dataset(s) left in the Flight store", replay)
                        if r["status"] == "raised" and fail is None and r["exc"] and "not found" in r["exc"] and "Table with key" in r["exc"]:
                            dist["premature_drop_errors"] += 1
                            if planner_kf:      # (the MULTIPROCESSING transform-from-non-Arrow domain is repaired: 3c9d46c)
                                rep.finding("C09-missing-dataset-in-defect-domains", r["exc"], replay)
                            else:
                                rep.finding(f"premature-drop:{key}", f"a step needed a dataset that is not in the store: {r['exc']}", replay)
                                found = True
    # ---- key identity across the runs of one session: re-run sessions in MULTIPROCESSING against the long-lived server
    if c09_rerun.check(rep, tier, seed):
        found = True
    stop_flight_server()
    rep.add("distribution", dist)
    rep.add("rule", "unit level: PRNG children sets (1-5 of 8 ids), with/without uploads, 1-5 processed feature sets; deferred drops "
                    "over 1-4 tracked objects. End to end: C01 request DAGs x {SYNC, THREADING, MULTIPROCESSING} x {run, stream, "
                    "abandoned stream} x (no fault | calculation fault at a step), one long-lived Flight server. Re-run sessions: "
                    "planner_b chains / fan-ins / shared producers on 1-3 frameworks outside the planner-defect domains, with and without a "
                    "transform step, prepared once, 2-4 MULTIPROCESSING calls in PRNG mixes of run / stream / abandoned stream / failing "
                    "run. non-trivial = a sequence in which the object is dropped / every end-to-end run / every (request, operation mix)")
    rep.sample({"tracker_case": tc[0][1], "deferred_case": dc[0][1]})
    if not pr.ok and not found:
        rep.finding("proof-broken", "Props/C09.v no longer checks",
                    {"failed_files": pr.failed_files, "forbidden": pr.forbidden, "log_tail": pr.log[-3000:]}, found_input=False)


def replay(path: str) -> int:
    r = json.load(open(path))["replay"]
    install()
    if r.get("kind") == "worker_proto":
        return worker_proto.replay_main(r, "C09")
    if r.get("kind") == "rerun":
        rc = c09_rerun.replay_main(r)
        stop_flight_server()
        return rc
    if str(r.get("kind", "")).startswith("artifacts-"):
        return c09_artifacts.replay_main(r)
    if r.get("kind") == "e2e":
        res = e2e(r["spec"], r["mode"], r["variant"], tuple(r["fail"]) if r.get("fail") else None)
        print(json.dumps(res, indent=1))
        stop_flight_server()
    else:
        print(json.dumps(r, indent=1))
    return 0
