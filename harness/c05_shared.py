"""C05 family `shared_source`: several INDEPENDENT joins that share one source.

  R0 .. R{k-1}  left sources (k = 2..3) on framework L, value column v{i} + key column(s)
  S             ONE shared source on framework R (all 3 x 3 pairs (L, R), L = R included), value column s + key column(s)
  Link_i        jt_i (R_i.key_i, S.key_i), jt_i in {INNER, LEFT, OUTER} (all equal or mixed), equally named keys:
                  keying "one"      every link joins on the same column k
                  keying "per_arm"  link i joins on its own column k{i} (S carries k0 .. k{k-1})
  D_i           one consumer per join on L, f{i} = v{i} + s        -> must receive rel_join jt_i key_i key_i R_i S
  DX (option)   a consumer over TWO arms (v0, v1, s), INNER links only: a three-source join, recorded domains apply
The key sets make the joins DIFFER: every arm has a match with S that no other arm has, a left-only key, and S has a key no
arm has - a consumer that is handed another arm's join (or a join with an already merged table) receives other rows.

Judge (the property itself): the rows every consumer D_i received are compared in Coq with rel_join (Spec/Rel.v) of exactly ITS
Link over exactly its two source tables (c05.term / chk_join on the two-source sub-request).
Model (coq/Model/RoutingJS.v over Model/RoutingJ.v; theorems Props/C05shared.v):
  own_okb        the premises of RoutingJS_join_merges_own_source, EVALUATED on the steps of the run in begin order: every
                 JoinStep has, before it, a TransformFrameworkStep carrying its link uuid, link uuids occur in no feature-group
                 step's children_if_root, ...  Must be true for every cross-framework member of the family (a plan with one
                 conversion for two joins - seed C05_r4 - makes it false)
  chk_own        conclusion on the model run: every JoinStep read the object created by its own transform step
  chk_route_x    computed footprints = observed footprints (routing_j tie)
  chk_seen       computed table of every consumer's object when it begins = the rows it received (source columns)
and directly on the observation: the object every JoinStep read was created by the transform step with its link uuid.

Recorded domain (unchanged tree, decided on the request): L = R.  No transform step is planned inside one framework; add_tfs puts
BOTH link uuids into the shared source's children_if_root, the first JoinStep merges the shared source's object into its left
object (cfw_merge_relation), and the second JoinStep's lookup of its link uuid lands on that object and is redirected by
find_leftmost to the first join's LEFT object: it merges R_1 with (R_0 join S).  In the domain the observation must equal the
faithful model (chk_seen for every consumer) or the specified joins; anything else is a violation.
"""
from __future__ import annotations

import itertools
import json
import random
from typing import Any, Dict, List, Optional, Tuple

from lib import vlib
from lib.vlib import cq_list, cq_nat
from harness.universe import Universe, export_plan
from harness.orch import run_observed
from harness import routing, routing_j

CF = ["PyArrowTable", "PandasDataFrame", "PythonDictFramework"]
KF_SAME_FW = "C05-joins-sharing-a-source-on-one-framework-merge-an-already-merged-table"
KF_MULTIWAY = "C05-multiway-join-across-frameworks"
REQ_S = ["MV.Spec.Rel", "MV.Model.Routing", "MV.Model.RoutingJ", "MV.Model.RoutingJS"]
DEFS_S = """
Definition own_prem (c : list xstep) : bool := own_okb c.
Definition chk_own (c : list xstep) : bool := negb (own_okb c) || joins_read_own c.
Definition chk_prem_own (c : list xstep) : bool := own_okb c && joins_read_own c.
"""


# ----------------------------------------------------------------------------------------------------------------------
# generation
# ----------------------------------------------------------------------------------------------------------------------
def gen(rng: random.Random, k: int, jts: List[str], cl: str, cr: str, keying: str, both: bool) -> Dict[str, Any]:
    # inside the recorded domain L = R the comparison with the faithful model is kept exact: joins with an already merged table
    # must not meet null keys (per-arm key columns of padded rows: the engines differ there, C12) nor, on PythonDictFramework, an
    # empty result (C05-pydict-empty-join-raises) - one key column k, and on PythonDictFramework a key common to all tables
    if cl == cr and (any(j != "INNER" for j in jts) or cl == "PythonDictFramework"):
        keying = "one"
    force_common = cl == cr == "PythonDictFramework"
    dom = list(range(1, 10))
    rng.shuffle(dom)
    own = dom[:k]                       # own[i]: in S and in R_i only
    common = dom[k]                     # in S and in every R_i (possibly dropped from some arms)
    s_only = dom[k + 1]                 # in S, in no arm
    left_only = dom[k + 2:k + 2 + k]    # left_only[i]: in R_i only, not in S
    spare = dom[k + 2 + k:]
    groups: List[Dict[str, Any]] = []
    skeys: Dict[str, List[int]] = {}
    n_s = k + 2
    for i in range(k):
        kn = "k" if keying == "one" else f"k{i}"
        ks = [own[i], left_only[i]]
        if rng.random() < 0.7 or force_common:
            ks.append(common)
        if i + 1 < k and rng.random() < 0.4:
            ks.append(own[i + 1])       # a match this arm shares with the next one
        if spare and rng.random() < 0.4:
            ks.append(spare[i % len(spare)])
        rng.shuffle(ks)
        groups.append({"name": f"R{i}", "kind": "root", "cfw": cl,
                       "cols": {f"v{i}": rng.sample(range(100 * (i + 1), 100 * (i + 1) + 90), len(ks)), kn: ks}})
        if keying == "per_arm":
            col = own + [common, s_only]
            rng.shuffle(col)
            skeys[kn] = col
    if keying == "one":
        col = own + [common, s_only]
        rng.shuffle(col)
        skeys["k"] = col
    groups.append({"name": "S", "kind": "root", "cfw": cr, "cols": {"s": rng.sample(range(10, 99), n_s), **skeys}})
    links, req = [], []
    for i in range(k):
        kn = "k" if keying == "one" else f"k{i}"
        groups.append({"name": f"D{i}", "kind": "derived", "cfw": cl,
                       "features": {f"f{i}": {"inputs": [f"v{i}", "s"], "c0": 0, "coefs": [1, 1]}}})
        links.append({"jt": jts[i], "l": f"R{i}", "r": "S", "li": [kn], "ri": [kn]})
        req.append(f"f{i}")
    if both:
        groups.append({"name": "DX", "kind": "derived", "cfw": cl,
                       "features": {"fx": {"inputs": ["v0", "v1", "s"], "c0": 0, "coefs": [1, 1, 1]}}})
        req.append("fx")
    return {"groups": groups, "request": req, "links": links, "family": "shared_source",
            "dims": {"k": k, "jts": "+".join(sorted(set(jts))), "L": cl, "R": cr, "keying": keying, "both": both}}


def family(rng: random.Random, big: bool) -> List[Dict[str, Any]]:
    out = []
    for cl, cr in itertools.product(CF, CF):
        for k in (2, 3):
            for jt in ("INNER", "LEFT", "OUTER"):
                for _ in range(3 if big else 1):
                    out.append(gen(rng, k, [jt] * k, cl, cr, rng.choice(["one", "per_arm"]), False))
            for _ in range(4 if big else 1):       # mixed join types
                out.append(gen(rng, k, [rng.choice(["INNER", "LEFT", "OUTER"]) for _ in range(k)], cl, cr,
                               rng.choice(["one", "per_arm"]), False))
        for _ in range(2 if big else 1):           # a third consumer over two arms (inner links)
            out.append(gen(rng, 2, ["INNER", "INNER"], cl, cr, "one", True))
    return out


def kf_of(spec: Dict[str, Any]) -> Optional[str]:
    """recorded domain of a member of the family, decided on the request alone."""
    g = {x["name"]: x for x in spec["groups"]}
    if g["R0"]["cfw"] == g["S"]["cfw"]:
        return KF_SAME_FW
    return None


def arm_spec(spec: Dict[str, Any], i: int) -> Dict[str, Any]:
    """the two-source request Link_i alone describes (oracle input of c05.term)."""
    g = {x["name"]: x for x in spec["groups"]}
    return {"groups": [g[f"R{i}"], g["S"]], "links": [spec["links"][i]]}


def root_columns(spec: Dict[str, Any]) -> set:
    return {c for g in spec["groups"] if g["kind"] == "root" for c in g["cols"]}


# ----------------------------------------------------------------------------------------------------------------------
# one run
# ----------------------------------------------------------------------------------------------------------------------
def one(spec: Dict[str, Any], modes: Any = None) -> Dict[str, Any]:
    from harness import c05
    cap = c05.Cap()
    uni = Universe(spec, cap)
    rec: Dict[str, Any] = {"spec": spec}
    try:
        sess = uni.prepare()
    except Exception as e:  # noqa: BLE001
        rec["status"] = "rejected"
        rec["exc"] = f"{type(e).__name__}: {str(e)[:160]}"
        return rec
    plan = export_plan(sess, uni)
    o = run_observed(sess, modes=modes, timeout=30, ren=plan["_ren"])
    plan = routing.with_run_orders(plan, o.get("orders"))
    rec["status"] = o["status"]
    rec["exc"] = str(o.get("exc"))[-200:] if o["status"] == "raised" else None
    rec["rows"] = {g: cap.rows[g] for g in cap.rows if g.startswith("D")}
    rec["plan_kinds"] = [s["kind"] for s in plan["steps"]]
    if o["status"] != "hang":
        foot = {int(k): v for k, v in o["foot"].items()}
        rec["route"] = routing_j.terms_x(spec, plan, o["begin_order"], foot)
        rec["consumer_sid"] = {s["group"]: s["sid"] for s in plan["steps"]
                               if s["kind"] == "FG" and s["group"].startswith("D") and s["sid"] in o["begin_order"]}
        # directly on the observation: the object each JoinStep read was created by the transform step of ITS link
        creator: Dict[int, int] = {}
        for sid in o["begin_order"]:
            if sid in foot:
                creator.setdefault(foot[sid][0], sid)
        steps = {s["sid"]: s for s in plan["steps"]}
        own = []
        for sid in o["begin_order"]:
            s = steps.get(sid)
            if s and s["kind"] == "JOIN" and sid in foot and len(foot[sid][1]) > 1:
                src = steps.get(creator.get(foot[sid][1][1], -1))
                own.append({"join": sid, "link": s["link"], "read_object_created_by": (src or {}).get("kind"),
                            "own": bool(src and src["kind"] == "TFS" and src.get("link_id") == s["uuids"][1])})
        rec["own_transform"] = own
    uni.dispose()
    return rec


# ----------------------------------------------------------------------------------------------------------------------
# the family inside ./check C05
# ----------------------------------------------------------------------------------------------------------------------
def run_family(rep: vlib.Reporter, rng: random.Random, big: bool) -> Tuple[int, bool, Dict[str, Any]]:
    from harness import c05
    specs = family(rng, big)
    recs = [one(s) for s in specs]
    found = False
    reported = [0]

    def violation(key: str, what: str, replay_obj: Dict[str, Any]) -> None:
        reported[0] += 1
        if reported[0] <= 6:                     # one replay file per failing input, at most six per run
            rep.finding(key, what, replay_obj)
    dist: Dict[str, Any] = {"requests": len(specs), "status": {}, "by_pair": {}, "by_k": {}, "by_jt": {}, "by_keying": {},
                            "with_two_arm_consumer": 0}
    # ---- judge: every consumer against rel_join of its own Link -------------------------------------------------------
    jterms: List[str] = []
    jidx: List[Tuple[int, int]] = []
    for n, r in enumerate(recs):
        d = r["spec"]["dims"]
        dist["status"][r["status"]] = dist["status"].get(r["status"], 0) + 1
        for key, val in (("by_pair", f"{d['L']}<-{d['R']}"), ("by_k", str(d["k"])), ("by_jt", d["jts"]), ("by_keying", d["keying"])):
            dist[key][val] = dist[key].get(val, 0) + 1
        dist["with_two_arm_consumer"] += bool(d["both"])
        for i in range(d["k"]):
            rows = (r.get("rows") or {}).get(f"D{i}")
            if rows is not None:
                jidx.append((n, i))
                jterms.append(c05.term(arm_spec(r["spec"], i), rows))
    jbad, jinfo = vlib.run_cases("C05", "shared_judge", c05.REQ, "chk_join", jterms, extra_defs=c05.EXTRA, case_type=c05.CASE_TY,
                                 shard=60) if jterms else ([], {})
    wrong_arm: Dict[int, List[int]] = {}
    for j in jbad:
        wrong_arm.setdefault(jidx[j][0], []).append(jidx[j][1])
    # ---- model: premises, conclusion, footprints, consumer tables -----------------------------------------------------
    rt = [n for n, r in enumerate(recs) if r.get("route")]
    step_terms = [cq_list(recs[n]["route"][0]) for n in rt]
    # premises and conclusion in one pass; the failing ones are then split into "premises false" / "conclusion false"
    both_bad = vlib.run_cases("C05", "shared_prem_own", REQ_S, "chk_prem_own", step_terms, extra_defs=DEFS_S,
                              case_type="list xstep", shard=60)[0] if rt else []
    prem_false = set(rt[both_bad[j]] for j in (vlib.run_cases("C05", "shared_prem", REQ_S, "own_prem", [step_terms[j] for j in both_bad],
                                                              extra_defs=DEFS_S, case_type="list xstep", shard=60)[0] if both_bad else []))
    own_bad = set(rt[j] for j in both_bad) - prem_false
    bad_rt, info_rt = routing_j.check_routes("C05", "shared_routex", [recs[n]["route"] for n in rt])
    route_bad = set(rt[j] for j in bad_rt)
    cols = {n: root_columns(recs[n]["spec"]) for n in rt}
    seen_items, seen_idx = [], []
    for n in rt:
        r = recs[n]
        for grp, sid in sorted((r.get("consumer_sid") or {}).items()):
            rows = (r.get("rows") or {}).get(grp)
            if rows is None or grp == "DX":
                continue
            proj = [{c: v for c, v in row.items() if c in cols[n]} for row in rows]
            seen_items.append((r["route"][0], sid, c05.cq_table(proj)))
            seen_idx.append((n, grp))
    bad_seen, info_seen = routing_j.check_seen("C05", "shared_seenx", seen_items)
    seen_bad: Dict[int, List[str]] = {}
    for j in bad_seen:
        seen_bad.setdefault(seen_idx[j][0], []).append(seen_idx[j][1])
    # ---- classification ------------------------------------------------------------------------------------------------
    out = {"consumers_judged": len(jterms), "consumers_not_their_join": len(jbad), "premises_true": 0, "premises_false_same_fw": 0,
           "in_recorded_domain": 0, "recorded_domain_equal_to_model": 0, "recorded_domain_equal_to_spec": 0,
           "two_arm_consumer_failures_in_multiway_domain": 0, "joins_observed": 0, "joins_reading_own_transform": 0}
    for n, r in enumerate(recs):
        spec = r["spec"]
        d = spec["dims"]
        key = json.dumps(spec, sort_keys=True)
        dom = kf_of(spec)
        cross = dom is None
        rep.nontrivial(("shared", spec["links"], [g.get("cfw") for g in spec["groups"]],
                        [g.get("cols") for g in spec["groups"] if g["kind"] == "root"]))
        replay = {"kind": "shared", "spec": spec, "status": r["status"], "exc": r.get("exc"), "rows": r.get("rows"),
                  "own_transform": r.get("own_transform")}
        arms_missing = [i for i in range(d["k"]) if (r.get("rows") or {}).get(f"D{i}") is None]
        problems: List[str] = []
        if r["status"] == "rejected":
            problems.append(f"request rejected at prepare: {r['exc']}")
        elif r["status"] == "hang":
            problems.append("the run did not terminate")
        # a raise caused by the two-arm consumer of a cross-framework request is the recorded multi-way domain
        dx_raise = r["status"] == "raised" and d["both"] and cross
        if r["status"] == "raised" and not dx_raise:
            problems.append(f"the accepted request raised at run time: {r['exc']}")
        if n in wrong_arm:
            i = wrong_arm[n][0]
            l = spec["links"][i]
            problems.append(f"consumer D{i} ({l['jt']} Link(R{i}.{l['li'][0]}, S.{l['ri'][0]}), sources on {d['L']}, shared source S on "
                            f"{d['R']}, {d['k']} joins share S) did not receive the join its Link describes: got {r['rows'][f'D{i}']}")
        if arms_missing and r["status"] == "ok":
            problems.append(f"consumers {['D%d' % i for i in arms_missing]} were never handed data")
        for o in r.get("own_transform") or []:
            out["joins_observed"] += 1
            out["joins_reading_own_transform"] += bool(o["own"])
        if cross:
            if n in prem_false:
                problems.append("the steps of the run (begin order) do not satisfy own_okb: some JoinStep has no transform step of its "
                                f"own link before it (plan: {r.get('plan_kinds')})")
            else:
                out["premises_true"] += n in rt
            if n in own_bad:
                problems.append("own_okb holds but the model run has a JoinStep not reading its own transform object (contradicts "
                                "RoutingJS_join_reads_own_transform)")
            notown = [o for o in (r.get("own_transform") or []) if not o["own"]]
            if notown:
                problems.append(f"JoinStep {notown[0]['link']} merged an object created by a {notown[0]['read_object_created_by']} step, "
                                "not by the transform step carrying its link uuid")
            if n in route_bad:
                problems.append("the objects the steps worked on are not the ones Model/RoutingJ.v computes from the plan and the begin order")
            if n in seen_bad:
                problems.append(f"the rows consumers {seen_bad[n]} received are not the tables Model/RoutingJ.v computes for their objects")
            if d["both"] and (r["status"] == "raised" or (r.get("rows") or {}).get("DX") is None) and not problems:
                out["two_arm_consumer_failures_in_multiway_domain"] += 1
                rep.finding(KF_MULTIWAY, f"two-arm consumer DX over v0, v1, s: {r['status']}: {r.get('exc')}", replay)
                continue
            if problems:
                violation(f"shared:{key}", "; ".join(problems), replay)
                found = True
            continue
        # ---- L = R: the recorded domain -------------------------------------------------------------------------------
        out["in_recorded_domain"] += 1
        out["premises_false_same_fw"] += n in prem_false
        if n in route_bad:
            problems.append("the objects the steps worked on are not the ones Model/RoutingJ.v computes from the plan and the begin order")
        hard = [p for p in problems if not p.startswith("consumer D")]
        if hard or r["status"] != "ok" or arms_missing:
            violation(f"shared:{key}", "; ".join(problems or [f"status {r['status']}"]) + f" (request in domain {dom}, but this is not "
                      "the recorded behaviour)", replay)
            found = True
        elif n in wrong_arm:
            if n in seen_bad:
                violation(f"shared:{key}", "; ".join(problems) + f" (request in domain {dom}, but the rows are neither the specified joins "
                          f"nor the tables the faithful model computes: consumers {seen_bad[n]})", replay)
                found = True
            else:
                out["recorded_domain_equal_to_model"] += 1
                rep.finding(dom, "; ".join(problems), replay)
        else:
            out["recorded_domain_equal_to_spec"] += 1
    out["violating_requests"] = reported[0]
    out.update({"footprint_runs": len(rt), "footprint_disagreements": len(bad_rt), "consumer_tables_compared": len(seen_items),
                "consumer_table_disagreements_outside_domain": sum(len(v) for n, v in seen_bad.items() if kf_of(recs[n]["spec"]) is None),
                "coq_eval_s": {"judge": jinfo.get("coq_eval_s"), "routes": info_rt.get("coq_eval_s"), "seen": info_seen.get("coq_eval_s")}})
    dist["checks"] = out
    ok = [r for r in recs if r["status"] == "ok" and kf_of(r["spec"]) is None and not r["spec"]["dims"]["both"]]
    if ok:
        rep.sample({"family": "shared_source", "spec": ok[0]["spec"], "rows_received": ok[0]["rows"]})
    return len(recs), found, dist


def replay(r: Dict[str, Any]) -> int:
    from harness import c05
    spec = r["spec"]
    rec = one(spec)
    print(json.dumps({k: rec.get(k) for k in ("status", "exc", "rows", "own_transform", "plan_kinds")}, indent=1, default=str),
          "recorded domain:", kf_of(spec))
    for i in range(spec["dims"]["k"]):
        rows = (rec.get("rows") or {}).get(f"D{i}")
        if rows is None:
            print(f"D{i}: no rows received")
            continue
        bad, _ = vlib.run_cases("C05", "replay", c05.REQ, "chk_join", [c05.term(arm_spec(spec, i), rows)], extra_defs=c05.EXTRA,
                                case_type=c05.CASE_TY)
        print(f"D{i}: rows received = rel_join of its own Link:", not bad)
    if rec.get("route"):
        t = [cq_list(rec["route"][0])]
        pf, _ = vlib.run_cases("C05", "replay_prem", REQ_S, "own_prem", t, extra_defs=DEFS_S, case_type="list xstep")
        print("own_okb (premises of RoutingJS_join_merges_own_source) on the steps of this run:", not pf)
    return 0
