"""Helpers of the C07 check: universes with ApiInputData-backed roots and link-carrying input features, a canonical
structural dump of arbitrary argument objects (the snapshot used as safety net for the heap model), Coq printers."""
from __future__ import annotations

import enum
import json
import uuid as _uuid
from typing import Any, Dict, List, Optional, Set, Tuple

from lib.vlib import cq_bool, cq_list, cq_nat, cq_opt, cq_str, cq_z
from harness.universe import Universe, native_table, _dyn
from harness import mp_obs

CFW_IDS = {"PyArrowTable": 0, "PandasDataFrame": 1, "PythonDictFramework": 2}
DT_IDS = {"INT32": 1, "INT64": 2, "FLOAT": 3, "DOUBLE": 4, "STRING": 5, "BOOLEAN": 6}
JT_IDS = {"INNER": 0, "LEFT": 1, "RIGHT": 2, "OUTER": 3, "APPEND": 4, "UNION": 5}
DOM_IDS = {"default_domain": 0, "sales": 1, "finance": 2, "geo": 3}      # 0 = Domain.get_default_domain()


class Uni7(Universe):
    """Universe + groups of kind "api" (root whose data arrives through api_data[key]) + per-group data type rule +
    input features carrying a Link ("input_link": {input name: link index} with self.link_objs set by the caller) or an
    explicit domain ("input_dom": {input name: domain name}) + per-group domain ("domain": name -> get_domain()).

      {"name": "A0", "kind": "api", "cfw": "PyArrowTable", "key": "K0", "cols": {"a": [..], ..}, "features": {"a": {}, ..}}
    """

    def __init__(self, spec: Dict[str, Any], listener: Any = None) -> None:
        self.api_seen: List[Any] = []          # what the api root's calculation received, per execution
        self.input_links: Dict[int, Any] = {}  # link index -> Link object handed out by input_features
        super().__init__(spec, listener)

    def _make_group(self, g: Dict[str, Any]) -> type:
        uni = self
        if g["kind"] != "api":
            cls = super()._make_group(g)
            if g["kind"] == "derived" and any(d.get("input_link") or d.get("input_dom") for d in g["features"].values()):
                from mloda.user import Feature
                feats = g["features"]

                def input_features(self: Any, options: Any, feature_name: Any, _f: Any = feats) -> Any:
                    n = feature_name.name if hasattr(feature_name, "name") else str(feature_name)
                    res = set()
                    for i in _f[n]["inputs"]:
                        li = (_f[n].get("input_link") or {}).get(i)
                        dm = (_f[n].get("input_dom") or {}).get(i)
                        kw: Dict[str, Any] = {}
                        if li is not None:
                            kw["link"] = uni.input_links[li]
                        if dm is not None:
                            kw["domain"] = dm
                        res.add(Feature(i, **kw))
                    return res
                cls.input_features = input_features  # type: ignore[attr-defined]
        else:
            from mloda.provider import FeatureGroup, ApiData
            from harness.universe import cfw_class
            gname, cfw = g["name"], g["cfw"]

            def compute_framework_rule(cls: Any, _c: str = cfw) -> Any:
                return {cfw_class(_c)}

            def input_data(cls: Any) -> Any:
                return ApiData()

            def calculate_feature(cls: Any, data: Any, features: Any) -> Any:
                names = sorted(f.get_name() for f in features.features)
                uni.api_seen.append(data)
                if mp_obs.in_child():
                    # MULTIPROCESSING: this list is a forked copy; ship what the root received back to the parent
                    mp_obs.emit({"ev": "api_seen", "data": {k: list(v) for k, v in data.items()}})
                uni.listener.on_enter(gname, names, [], None, features)
                for n in names:
                    if (gname, n) in uni.fail:
                        raise RuntimeError(f"VERIF-FAULT calc {gname}.{n}")
                out = native_table(uni._cfw_name_of(cls, features), {k: list(v) for k, v in data.items()})
                uni.listener.on_exit(gname, names)
                return out
            ns = {"compute_framework_rule": classmethod(compute_framework_rule), "input_data": classmethod(input_data),
                  "calculate_feature": classmethod(calculate_feature)}
            cname = f"{self.tag}_{gname}"
            cls = type(cname, (FeatureGroup,), ns)
            cls.__module__ = "harness.dynclasses"
            cls.__qualname__ = cname
            setattr(_dyn, cname, cls)
        if g.get("domain"):
            from mloda.user import Domain
            cls.get_domain = classmethod(lambda c, _d=g["domain"]: Domain(_d))  # type: ignore[attr-defined]
        if g.get("dtype_rule"):
            from mloda.core.abstract_plugins.components.data_types import DataType
            dt = DataType[g["dtype_rule"]]
            cls.return_data_type_rule = classmethod(lambda c, f, _d=dt: _d)  # type: ignore[attr-defined]
        return cls

    def api_default(self) -> Optional[Dict[str, Dict[str, List[Any]]]]:
        out = {g["key"]: {k: list(v) for k, v in g["cols"].items()} for g in self.spec["groups"] if g["kind"] == "api"}
        return out or None

    def gid(self, cls_or_name: Any) -> int:
        name = cls_or_name if isinstance(cls_or_name, str) else self.group_display(cls_or_name)
        return [g["name"] for g in self.spec["groups"]].index(name)


# ------------------------------------------------------------------------------------------------------------
# canonical structural dump
# ------------------------------------------------------------------------------------------------------------

class Renamer:
    """uuid -> small number, stable for the lifetime of the renamer (so before/after dumps are comparable)."""

    def __init__(self) -> None:
        self.m: Dict[Any, int] = {}

    def __call__(self, u: Any) -> str:
        if u not in self.m:
            self.m[u] = len(self.m) + 1
        return f"uuid#{self.m[u]}"


def _cls_name(c: type) -> str:
    n = c.__name__
    if n.startswith("U") and "_" in n and n.split("_", 1)[0][1:].isdigit():
        return n.split("_", 1)[1]
    return n


def dump(x: Any, ren: Optional[Renamer] = None, _seen: Optional[Set[int]] = None, _depth: int = 0) -> Any:
    """Deep canonical description of an object graph: every attribute of every reachable object.  Sets and dict items
    are sorted by their uuid-masked description; uuids are renamed by `ren` (masked when ren is None); classes and
    enums by name; no addresses."""
    if _seen is None:
        _seen = set()
    if x is None or isinstance(x, (bool, int, str)):
        return x
    if isinstance(x, float):
        return repr(x)
    if isinstance(x, _uuid.UUID):
        return ren(x) if ren else "uuid"
    if isinstance(x, type):
        return "class:" + _cls_name(x)
    if isinstance(x, enum.Enum):
        return f"enum:{type(x).__name__}.{x.name}"
    if _depth > 40:
        return "..."
    if isinstance(x, dict):
        items = [(dump(k, None, _seen, _depth + 1), dump(k, ren, _seen, _depth + 1), dump(v, None, _seen, _depth + 1),
                  dump(v, ren, _seen, _depth + 1)) for k, v in x.items()]
        items.sort(key=lambda t: json.dumps([t[0], t[2]], sort_keys=True, default=str))
        return {"__dict__": [[t[1], t[3]] for t in items]}
    if isinstance(x, (list, tuple)):
        return [dump(e, ren, _seen, _depth + 1) for e in x]
    if isinstance(x, (set, frozenset)):
        items2 = [(dump(e, None, _seen, _depth + 1), dump(e, ren, _seen, _depth + 1)) for e in x]
        items2.sort(key=lambda t: json.dumps(t[0], sort_keys=True, default=str))
        return {"__set__": [t[1] for t in items2]}
    if hasattr(x, "__dict__"):
        if id(x) in _seen:
            return f"<cycle {type(x).__name__}>"
        _seen = _seen | {id(x)}
        return {"__obj__": type(x).__name__,
                "fields": {k: dump(v, ren, _seen, _depth + 1) for k, v in sorted(vars(x).items())}}
    if hasattr(x, "to_pydict"):
        return {"__table__": x.to_pydict()}
    return "opaque:" + type(x).__name__


def diff_paths(a: Any, b: Any, path: str = "") -> List[str]:
    """Paths at which two dumps differ.  Objects and dicts are aligned by attribute / key, lists by position; a set
    that differs is reported at its own path."""
    if type(a) != type(b):
        return [path or "/"]
    if isinstance(a, dict):
        if "__obj__" in a and "__obj__" in b:
            if a["__obj__"] != b["__obj__"] or set(a["fields"]) != set(b["fields"]):
                return [path or "/"]
            out: List[str] = []
            for k in a["fields"]:
                out += diff_paths(a["fields"][k], b["fields"][k], f"{path}.{k}")
            return out
        if "__dict__" in a and "__dict__" in b:
            ka = [json.dumps(k, sort_keys=True, default=str) for k, _ in a["__dict__"]]
            kb = [json.dumps(k, sort_keys=True, default=str) for k, _ in b["__dict__"]]
            if ka != kb:
                return [path or "/"]
            out = []
            for (k, va), (_, vb) in zip(a["__dict__"], b["__dict__"]):
                out += diff_paths(va, vb, f"{path}[{k}]")
            return out
        if "__set__" in a or "__obj__" in a or "__dict__" in a or "__table__" in a:
            return [] if a == b else [path or "/"]
        if set(a) != set(b):
            return [path or "/"]
        out = []
        for k in a:
            out += diff_paths(a[k], b[k], f"{path}.{k}")
        return out
    if isinstance(a, list):
        if len(a) != len(b):
            return [path or "/"]
        out = []
        for i, (x, y) in enumerate(zip(a, b)):
            out += diff_paths(x, y, f"{path}[{i}]")
        return out
    return [] if a == b else [path or "/"]


# ------------------------------------------------------------------------------------------------------------
# Coq printers
# ------------------------------------------------------------------------------------------------------------

def cq_api(d: Optional[Dict[str, Dict[str, List[int]]]]) -> str:
    if d is None:
        return "None"
    return "(Some " + cq_list(f"({cq_str(k)}, {cq_list(f'({cq_str(c)}, {cq_list(cq_z(int(v)) for v in vals)})' for c, vals in cols.items())})"
                               for k, cols in d.items()) + ")"


def cq_cols(shape: List[Tuple[str, List[str]]]) -> str:
    return cq_list(f"({cq_str(k)}, {cq_list(cq_str(c) for c in cs)})" for k, cs in shape)


def cq_val(v: Any) -> str:
    if isinstance(v, bool):
        return f"(VB {cq_bool(v)})"
    if isinstance(v, int):
        return f"(VZ {cq_z(v)})"
    if isinstance(v, str):
        return f"(VS {cq_str(v)})"
    if isinstance(v, dict) and "__cols__" in v:
        return f"(VCols {cq_cols(v['__cols__'])})"
    raise ValueError(f"option value outside the model: {v!r}")


def cq_opts(o: Dict[str, Any]) -> str:
    return cq_list(f"({cq_str(k)}, {cq_val(v)})" for k, v in o.items())


def cq_link(l: Dict[str, Any]) -> str:
    return (f"{{| l_jt := {cq_nat(JT_IDS[l['jt']])}; l_left := {cq_nat(l['l'])}; l_right := {cq_nat(l['r'])}; "
            f"l_li := {cq_list(cq_str(x) for x in l['li'])}; l_ri := {cq_list(cq_str(x) for x in l['ri'])} |}}")


def cq_onat(v: Optional[int]) -> str:
    return "None" if v is None else f"(Some {cq_nat(v)})"


def cq_onats(v: Optional[List[int]]) -> str:
    return "None" if v is None else "(Some " + cq_list(cq_nat(c) for c in v) + ")"


def cq_flt(f: Dict[str, Any]) -> str:
    return (f"{{| ft_name := {cq_str(f['name'])}; ft_opts := {cq_opts(f['opts'])}; ft_type := {cq_str(f['type'])}; "
            f"ft_param := {cq_list(f'({cq_str(k)}, {cq_z(int(v))})' for k, v in sorted(f['param'].items()))}; "
            f"ft_dom := {cq_onat(f.get('dom'))}; ft_cfw := {cq_onats(f.get('cfw'))} |}}")


def cq_fobj(f: Dict[str, Any]) -> str:
    cf = "None" if f["cfw"] is None else "(Some " + cq_list(cq_nat(c) for c in f["cfw"]) + ")"
    dt = "None" if f["dtype"] is None else f"(Some {cq_nat(f['dtype'])})"
    lk = "None" if f["link"] is None else f"(Some {cq_link(f['link'])})"
    return (f"{{| f_name := {cq_str(f['name'])}; f_opt := {cq_nat(f['opt'])}; f_cfw := {cf}; f_flag := {cq_bool(f['flag'])}; "
            f"f_dtype := {dt}; f_uuid := {cq_nat(f['uuid'])}; f_link := {lk}; f_dom := {cq_onat(f.get('dom'))} |}}")


def cq_oobj(o: Dict[str, Any]) -> str:
    return f"{{| og := {cq_opts(o['group'])}; oc := {cq_opts(o['context'])} |}}"


def cq_coll(c: List[Tuple[Tuple[int, str], List[Dict[str, Any]]]]) -> str:
    return cq_list(f"(({cq_nat(k[0])}, {cq_str(k[1])}), {cq_list(cq_flt(x) for x in fs)})" for k, fs in c)
