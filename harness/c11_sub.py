"""C11 helper run in a fresh interpreter (its own PYTHONHASHSEED): the witness of the known finding
C11-filter-feature-own-options.  Prints one JSON line: the list of f2 columns returned by `calls` identical calls.

Universe: root R0(a, b, k) and root R1(c, d, j) (enabled, never requested), derived D1 with f1 = a + b and
f2 = 1 + f1 + 2a (both in the same group, the calculation returns the incoming table plus the new column),
global filters  a max 20  where the filter feature `a` carries its own option {x: 1} (argv[2] == "own") or none
(argv[2] == "plain"), and  b max 22.  Request [f2] on PyArrowTable.  Rows: a = [4, 8, 15], b = [10, 18, 27]:
row 3 fails b <= 22, so the rows satisfying every applicable filter give f2 = [23, 43]."""
from __future__ import annotations

import json
import logging
import sys
from typing import Any

logging.disable(logging.CRITICAL)


def main() -> None:
    calls, variant = int(sys.argv[1]), sys.argv[2]
    import pyarrow as pa
    from mloda.user import mloda, Feature, GlobalFilter, PluginCollector
    from mloda.provider import FeatureGroup, DataCreator
    from mloda_plugins.compute_framework.base_implementations.pyarrow.table import PyArrowTable

    def root(name: str, cols: Any) -> type:
        def input_data(cls: Any) -> Any:
            return DataCreator(set(cols))

        def calculate_feature(cls: Any, data: Any, features: Any) -> Any:
            return pa.table(cols)

        def compute_framework_rule(cls: Any) -> Any:
            return {PyArrowTable}
        return type(name, (FeatureGroup,), {"input_data": classmethod(input_data), "calculate_feature": classmethod(calculate_feature),
                                            "compute_framework_rule": classmethod(compute_framework_rule)})

    def universe() -> Any:
        R0 = root("K11W_R0", {"a": [4, 8, 15], "b": [10, 18, 27], "k": [1, 2, 3]})
        R1 = root("K11W_R1", {"c": [5, 6, 7], "d": [1, 1, 1], "j": [1, 2, 3]})
        defs = {"f1": (["a", "b"], 0, [1, 1]), "f2": (["f1", "a"], 1, [1, 2])}

        def match_feature_group_criteria(cls: Any, feature_name: Any, options: Any, data_access_collection: Any = None) -> bool:
            return str(feature_name) in defs

        def input_features(self: Any, options: Any, feature_name: Any) -> Any:
            return {Feature(i) for i in defs[str(feature_name)][0]}

        def calculate_feature(cls: Any, data: Any, features: Any) -> Any:
            out = data
            for n in sorted(features.get_all_names()):
                ins, c0, coefs = defs[n]
                vals = [c0] * data.num_rows
                for coef, i in zip(coefs, ins):
                    vals = [v + coef * x for v, x in zip(vals, data.column(i).to_pylist())]
                out = out.append_column(n, pa.array(vals))
            return out

        def compute_framework_rule(cls: Any) -> Any:
            return {PyArrowTable}

        D1 = type("K11W_D1", (FeatureGroup,), {"match_feature_group_criteria": classmethod(match_feature_group_criteria),
                                               "input_features": input_features, "calculate_feature": classmethod(calculate_feature),
                                               "compute_framework_rule": classmethod(compute_framework_rule)})
        return R0, R1, D1

    outs = []
    for _ in range(calls):
        R0, R1, D1 = universe()
        g = GlobalFilter()
        g.add_filter(Feature("a", options=({"x": 1} if variant == "own" else {})), "max", {"value": 20})
        g.add_filter("b", "max", {"value": 22})
        try:
            res = mloda.run_all([Feature("f2")], compute_frameworks={PyArrowTable}, global_filter=g,
                                plugin_collector=PluginCollector.enabled_feature_groups({R0, R1, D1}))
            outs.append(sorted(res[0].column("f2").to_pylist()))
        except BaseException as e:  # noqa: BLE001
            outs.append("EXC:" + type(e).__name__ + ":" + str(e)[-80:])
    print(json.dumps(outs))


if __name__ == "__main__":
    main()
