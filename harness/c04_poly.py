"""C04 family `poly`: determinism of planning with POLYMORPHIC links (links declared on base classes).

Model: coq/Model/LinkSel.v (find_matching = ResolveLinks._find_matching_links / _select_most_specific_links) and
coq/Model/LinkSelReq.v (request_joins: every (ordered pair of the consumer's parents, selected link) is one join).
Theorems (Props/C04.v): C04_link_selection_order_independent, C04_request_joins_order_independent: the selected links / the joins
are the same multiset for every iteration order of the link set; C04_link_selection_first_of_minimal_refuted.

Requests: a class forest (bases + 1-2 levels of subclasses, one hierarchy per source, sources on one or two frameworks), 2-3 concrete
source classes consumed by one consumer, a link set in which 0, 1 or 2 (sometimes 3) polymorphic links match a concrete pair at
EQUAL minimal distance (different join types / indexes so that the plans differ visibly), with or without an exact-class link.
Every request is prepared REPS times in this process and REPS times in one fresh interpreter per PYTHONHASHSEED.  Checks:
  det    the join steps (join type, link classes, indexes, frameworks - with multiplicity), the accept/reject outcome and the
         canonical plan are the same in every preparation (hash seeds included);
  model  the multiset of links carried by the plan's join steps = request_joins of the model (vm_compute, chk_poly);
  run    accepted plans return or raise within the watchdog; the row count the consumer sees is the same in every process.
Self test: PYTHONPATH=/repo:$PWD /venv/bin/python -m harness.c04_poly [--seed N] [--n N]
"""
from __future__ import annotations

import json
import logging
import os
import random
import re
import subprocess
import sys
import threading
from typing import Any, Dict, List, Optional, Tuple

logging.disable(logging.CRITICAL)

REPS = 2
RUN_TIMEOUT_S = 15.0
CFW = {"PA": ("mloda_plugins.compute_framework.base_implementations.pyarrow.table", "PyArrowTable"),
       "PD": ("mloda_plugins.compute_framework.base_implementations.pandas.dataframe", "PandasDataFrame")}
# key columns of every source: k and j; rows differ per hierarchy so that INNER / LEFT / OUTER give different row counts
ROWS = [[1, 2, 3], [1, 2], [2, 3, 4, 5]]


def _cfw(name: str) -> type:
    import importlib
    mod, cls = CFW[name]
    return getattr(importlib.import_module(mod), cls)  # type: ignore[no-any-return]


_cache: Dict[str, Tuple[List[type], type]] = {}


def build(spec: Dict[str, Any]) -> Tuple[List[type], type]:
    """Real feature-group classes of the spec's forest (each matches only the feature named like itself) and the consumer."""
    key = json.dumps([spec["classes"], spec["use"], spec["cons_cfw"]])
    if key in _cache:
        return _cache[key]
    from mloda.provider import FeatureGroup, DataCreator
    from mloda.user import Feature
    tag = f"P{len(_cache)}"
    classes: List[type] = []
    for i, c in enumerate(spec["classes"]):
        base = FeatureGroup if c["parent"] is None else classes[c["parent"]]
        rows = ROWS[c["h"] % len(ROWS)]

        def input_data(cls: Any) -> Any:
            return DataCreator({cls.__name__})

        def calculate_feature(cls: Any, data: Any, features: Any, _rows: Any = rows) -> Any:
            return {cls.__name__: list(_rows), "k": list(_rows), "j": list(_rows)}

        def compute_framework_rule(cls: Any, _f: Any = c["cfw"]) -> Any:
            return {_cfw(_f)}

        classes.append(type(f"{tag}C{i}", (base,), {"input_data": classmethod(input_data),
                                                    "calculate_feature": classmethod(calculate_feature),
                                                    "compute_framework_rule": classmethod(compute_framework_rule)}))
    names = [classes[u].__name__ for u in spec["use"]]

    def input_features(self: Any, options: Any, feature_name: Any) -> Any:
        return {Feature(n) for n in names}

    def cons_calc(cls: Any, data: Any, features: Any) -> Any:
        n = data.num_rows if hasattr(data, "num_rows") else len(data)
        return {f"{tag}Cons": [n]}

    def cons_rule(cls: Any) -> Any:
        return {_cfw(spec["cons_cfw"])}

    cons = type(f"{tag}Cons", (FeatureGroup,), {"input_features": input_features, "calculate_feature": classmethod(cons_calc),
                                                "compute_framework_rule": classmethod(cons_rule)})
    _cache[key] = (classes, cons)
    return _cache[key]


def real_links(classes: List[type], links: List[Dict[str, Any]]) -> List[Any]:
    from mloda.user import Link, JoinSpec
    from mloda.core.abstract_plugins.components.link import JoinType
    return [Link(JoinType[l["jt"]], JoinSpec(classes[l["l"]], tuple(l["li"])), JoinSpec(classes[l["r"]], tuple(l["ri"]))) for l in links]


def canonical(session: Any, classes: List[type], rl: List[Any]) -> Dict[str, Any]:
    """uuid-free description of the plan: steps (kind, produces, waits for), join steps named by their link."""
    from mloda.core.core.step.feature_group_step import FeatureGroupStep
    from mloda.core.core.step.join_step import JoinStep
    from mloda.core.core.step.transform_frame_work_step import TransformFrameworkStep
    plan = list(session.engine.execution_planner)
    names: Dict[Any, str] = {}
    cname = {c.__name__: f"C{i}" for i, c in enumerate(classes)}

    def cn(c: type) -> str:
        return cname.get(c.__name__, "Cons" if c.__name__.endswith("Cons") else c.__name__)

    def fn(n: Any) -> str:
        return cname.get(str(n), "Cons" if str(n).endswith("Cons") else str(n))
    joins = []
    for step in plan:
        if isinstance(step, FeatureGroupStep):
            for f in step.features.features:
                names[f.uuid] = f"feature:{fn(f.name)}"
        elif isinstance(step, JoinStep):
            l = step.link
            pos = next((i for i, x in enumerate(rl) if x.uuid == l.uuid), -1)
            nm = (f"join:{l.jointype.name}:{cn(l.left_feature_group)}{list(l.left_index.index)}-"
                  f"{cn(l.right_feature_group)}{list(l.right_index.index)}:{step.left_framework.__name__}<-{step.right_framework.__name__}")
            names[step.uuid] = nm
            names[l.uuid] = nm + "#link"
            joins.append([nm, pos])
        elif isinstance(step, TransformFrameworkStep):
            names[step.uuid] = f"transform:{step.from_framework.__name__}->{step.to_framework.__name__}"
    steps = []
    for step in plan:
        steps.append([type(step).__name__, sorted(names.get(u, "UNKNOWN") for u in step.get_uuids()),
                      sorted(names.get(u, "DANGLING") for u in step.required_uuids)])
    return {"joins": sorted(joins), "steps": sorted(steps), "order": [n for n, _ in joins]}


def _run(session: Any, cons_name: str) -> Dict[str, Any]:
    out: Dict[str, Any] = {}

    def target() -> None:
        try:
            res = session.run()
            rows: Any = None
            for r in res:
                d = r.to_pydict() if hasattr(r, "to_pydict") else (r.to_dict("list") if hasattr(r, "to_dict") else r)
                if cons_name in d:
                    rows = list(d[cons_name])
            out["status"], out["rows"] = "ok", rows
        except BaseException as e:  # noqa: BLE001
            out["status"], out["exc"] = "raised", type(e).__name__
    th = threading.Thread(target=target, daemon=True)
    th.start()
    th.join(RUN_TIMEOUT_S)
    if th.is_alive():
        return {"status": "hang"}
    return out


def outcome(spec: Dict[str, Any], run: bool = True) -> Dict[str, Any]:
    from mloda.user import mloda, Feature, PluginCollector
    classes, cons = build(spec)
    rl = real_links(classes, spec["links"])
    cfws = {_cfw(c["cfw"]) for c in spec["classes"]} | {_cfw(spec["cons_cfw"])}
    try:
        sess = mloda.prepare([Feature(cons.__name__)], compute_frameworks=cfws, links=set(rl),
                             plugin_collector=PluginCollector.enabled_feature_groups(set(classes) | {cons}))
    except Exception as e:  # noqa: BLE001
        msg = re.sub(r"[0-9a-f]{8}-[0-9a-f-]{27}", "<uuid>", str(e))
        msg = re.sub(r"P\d+C", "C", msg)
        return {"accepted": False, "exc": type(e).__name__, "msg": msg[:120]}
    o: Dict[str, Any] = {"accepted": True, **canonical(sess, classes, rl)}
    if run:
        o["run"] = _run(sess, cons.__name__)
    return o


def mro_ids(spec: Dict[str, Any], i: int) -> List[int]:
    out = [i]
    while spec["classes"][out[-1]]["parent"] is not None:
        out.append(spec["classes"][out[-1]]["parent"])
    return out


# ------------------------------------------------------------------------------------------------------------ generation
def gen(rng: random.Random) -> Dict[str, Any]:
    nh = rng.choice([2, 2, 2, 3])                       # hierarchies = sources
    two_fw = rng.random() < 0.35
    classes: List[Dict[str, Any]] = []
    use: List[int] = []
    for h in range(nh):
        depth = rng.choice([1, 1, 2])                   # levels of subclasses below the base
        fw = "PD" if (two_fw and h == 1) else "PA"
        p: Optional[int] = None
        for _ in range(depth + 1):
            classes.append({"parent": p, "cfw": fw, "h": h})
            p = len(classes) - 1
        use.append(p)                                   # type: ignore[arg-type]
    spec: Dict[str, Any] = {"classes": classes, "use": use, "cons_cfw": "PA", "links": []}
    a, b = rng.sample(range(nh), 2)
    lf, rf = use[a], use[b]
    ml, mr = mro_ids(spec, lf), mro_ids(spec, rf)
    # candidate polymorphic links for (lf, rf) by distance: balanced (d,d), asymmetric (d,0) / (0,d)
    by_d: Dict[int, List[Tuple[int, int]]] = {}
    for d in range(1, max(len(ml), len(mr))):
        c = []
        if d < len(ml) and d < len(mr):
            c.append((ml[d], mr[d]))
        if d < len(ml):
            c.append((ml[d], rf))
        if d < len(mr):
            c.append((lf, mr[d]))
        by_d[d] = c
    d0 = rng.choice(sorted(by_d))
    ties = rng.choice([0, 1, 2, 2, 2, 3])
    cands = list(by_d[d0])
    rng.shuffle(cands)
    jts = ["INNER", "LEFT", "OUTER"]
    rng.shuffle(jts)
    links: List[Dict[str, Any]] = []
    for n, (x, y) in enumerate(cands[:ties]):
        links.append({"jt": jts[n % 3], "l": x, "r": y, "li": ["k"], "ri": ["k"]})
    if len(links) >= 2 and rng.random() < 0.25:
        # tie on ONE class pair: same join type (another one is refused by the validator), another index
        x = links[0]
        links[1] = {"jt": x["jt"] if rng.random() < 0.7 else links[1]["jt"], "l": x["l"], "r": x["r"], "li": ["j"], "ri": ["j"]}
    if rng.random() < 0.3 and d0 + 1 in by_d:            # a less specific link that must lose
        x, y = rng.choice(by_d[d0 + 1])
        links.append({"jt": rng.choice(jts), "l": x, "r": y, "li": ["k"], "ri": ["k"]})
    if rng.random() < 0.25:                              # an exact link: beats every polymorphic one
        links.append({"jt": rng.choice(jts), "l": lf, "r": rf, "li": ["k"], "ri": ["k"]})
    if rng.random() < 0.15:                              # a link written from the other side
        x, y = rng.choice(by_d[d0])
        links.append({"jt": "INNER", "l": y, "r": x, "li": ["k"], "ri": ["k"]})
    if nh == 3:                                          # the third source: joined by an exact or a base-class link
        c = [u for u in use if u not in (lf, rf)][0]
        mc = mro_ids(spec, c)
        if rng.random() < 0.8:
            links.append({"jt": rng.choice(["INNER", "LEFT"]), "l": lf if rng.random() < 0.5 else ml[-1],
                          "r": rng.choice([c, mc[-1]]), "li": ["k"], "ri": ["k"]})
    seen, uniq = set(), []
    for l in links:
        k = json.dumps(l, sort_keys=True)
        if k not in seen:
            seen.add(k)
            uniq.append(l)
    rng.shuffle(uniq)
    spec["links"] = uniq
    spec["pair"] = [lf, rf]
    return spec


def witness_specs() -> List[Dict[str, Any]]:
    """the seed's shape and its neighbours: BaseCustomers(0) <- Customers(1), BaseOrders(2) <- Orders(3)"""
    cl = [{"parent": None, "cfw": "PA", "h": 0}, {"parent": 0, "cfw": "PA", "h": 0},
          {"parent": None, "cfw": "PA", "h": 1}, {"parent": 2, "cfw": "PA", "h": 1}]
    out = []

    def L(jt: str, l: int, r: int, i: str = "k") -> Dict[str, Any]:
        return {"jt": jt, "l": l, "r": r, "li": [i], "ri": [i]}
    for links in ([L("INNER", 0, 3), L("LEFT", 1, 2)], [L("LEFT", 0, 3), L("INNER", 1, 2)], [L("OUTER", 0, 3), L("INNER", 1, 2)],
                  [L("INNER", 0, 2), L("LEFT", 1, 2)], [L("INNER", 0, 2), L("LEFT", 0, 3), L("OUTER", 1, 2)],
                  [L("INNER", 0, 2), L("INNER", 0, 2, "j")], [L("INNER", 0, 3), L("LEFT", 1, 2), L("OUTER", 1, 3)],
                  [L("INNER", 0, 3)], [L("INNER", 0, 2)], [L("INNER", 0, 3), L("INNER", 1, 2)],
                  [L("INNER", 1, 3), L("INNER", 1, 3, "j")], [L("LEFT", 1, 3), L("LEFT", 1, 3, "j"), L("INNER", 0, 2)]):
        out.append({"classes": cl, "use": [1, 3], "cons_cfw": "PA", "links": links, "pair": [1, 3]})
    cl2 = [dict(c, cfw="PD") if c["h"] == 1 else c for c in cl]
    out.append({"classes": cl2, "use": [1, 3], "cons_cfw": "PA", "links": [L("INNER", 0, 3), L("LEFT", 1, 2)], "pair": [1, 3]})
    return out


# ------------------------------------------------------------------------------------------------------------ comparison
def plan_key(o: Dict[str, Any]) -> str:
    if not o["accepted"]:
        return json.dumps(["rejected", o["exc"], re.sub(r"\W+", " ", o["msg"])[:60]])
    return json.dumps(["plan", o["joins"]])


def sub_main(path: str) -> None:
    specs = json.load(open(path))
    res = [[outcome(s, run=(r == 0)) for r in range(REPS)] for s in specs]
    sys.stdout.write(json.dumps(res))
    sys.stdout.flush()
    os._exit(0)


def run_subprocesses(specs: List[Dict[str, Any]], hash_seeds: List[int], workdir: Any, verif: str) -> Dict[int, Any]:
    workdir.mkdir(parents=True, exist_ok=True)
    p = workdir / "poly_specs.json"
    p.write_text(json.dumps(specs))
    procs = {}
    for hs in hash_seeds:
        env = dict(os.environ, PYTHONHASHSEED=str(hs))
        env["PYTHONPATH"] = os.environ.get("PYTHONPATH", "") + os.pathsep + verif
        procs[hs] = subprocess.Popen([sys.executable, "-m", "harness.c04_poly", "--sub", str(p)], env=env, cwd=verif,
                                     stdout=subprocess.PIPE, stderr=subprocess.DEVNULL, text=True)
    out: Dict[int, Any] = {}
    for hs, pr in procs.items():
        try:
            so, _ = pr.communicate(timeout=900)
            out[hs] = json.loads(so)
        except Exception as e:  # noqa: BLE001
            pr.kill()
            out[hs] = {"error": f"{type(e).__name__}: {str(e)[:100]}"}
    return out


EXTRA = """
Fixpoint pos_of (l : link) (ls : list link) (n : nat) : nat :=
  match ls with [] => n | x :: t => if link_eqb x l then n else pos_of l t (S n) end.
Definition cnt (x : nat) (l : list nat) := List.length (filter (Nat.eqb x) l).
Definition mset_eq (a b : list nat) := forallb (fun x => Nat.eqb (cnt x a) (cnt x b)) (a ++ b).
(* hierarchy, links (in spec order), ordered pairs of the consumer's parents; observed: positions of the links of the plan's join
   steps with multiplicity (None = prepare raised) *)
Definition chk_poly (c : (list (nat * list nat) * list link * list (nat * nat)) * option (list nat)) :=
  match c with
  | ((h, ls, ps), Some obs) =>
      negb (validate_rejects ls) && mset_eq (map (fun pl => pos_of (snd pl) ls 0) (request_joins (mro_of h) ls ps)) obs
      && mset_eq (map (fun pl => pos_of (snd pl) ls 0) (request_joins (mro_of h) (rev ls) (rev ps))) obs
  | ((h, ls, ps), None) => validate_rejects ls || backstop (map snd (request_joins (mro_of h) ls ps))
  end.
"""
REQ = ["MV.Model.LinkSel", "MV.Model.LinkSelReq", "MV.Model.LinkAttach"]
POLY_TY = "(list (nat * list nat) * list link * list (nat * nat)) * option (list nat)"
LAST_INFO: Dict[str, Any] = {}


def _diff(a: Dict[str, Any], b: Dict[str, Any]) -> Optional[str]:
    """None = same outcome; 'joins' / 'accept-vs-reject' / 'reject-reason' = the strict part differs; otherwise the class of the
    difference in the required sets (same vocabulary as harness/c04.diff_class)."""
    from harness.c04 import rule_of
    if a["accepted"] != b["accepted"]:
        return "accept-vs-reject"
    if not a["accepted"]:
        return None if (a["exc"], rule_of(a["msg"])) == (b["exc"], rule_of(b["msg"])) else "reject-reason"
    if a["joins"] != b["joins"]:
        return "joins"
    A = {json.dumps(s[:2]): s for s in a["steps"]}
    B = {json.dumps(s[:2]): s for s in b["steps"]}
    if set(A) != set(B) or len(a["steps"]) != len(b["steps"]):
        return "steps"
    short = {"FeatureGroupStep": "FG", "JoinStep": "JOIN", "TransformFrameworkStep": "TFS"}
    kinds = {short.get(A[k][0], A[k][0]) + "-req" for k in A if A[k][2] != B[k][2]}
    return "+".join(sorted(kinds)) or None


def tie_size(spec: Dict[str, Any]) -> int:
    """python replica used ONLY for the distribution counters: number of polymorphic links of minimal distance for spec['pair']"""
    lf, rf = spec["pair"]
    ml, mr = mro_ids(spec, lf), mro_ids(spec, rf)
    if any(l["l"] == lf and l["r"] == rf for l in spec["links"]):
        return -1
    ds = []
    for l in spec["links"]:
        if l["l"] in ml and l["r"] in mr:
            a, b = ml.index(l["l"]), mr.index(l["r"])
            if a == b or a == 0 or b == 0:
                ds.append(max(a, b))
    return ds.count(min(ds)) if ds else 0


def check(rep: Any, rng: random.Random, big: bool, hash_seeds: List[int]) -> bool:
    """the family: returns True when a violation was reported"""
    from lib import vlib
    from lib.vlib import cq_list, cq_nat
    from harness.c18 import cq_link
    from harness.c04 import KNOWN_CLASSES
    specs = witness_specs() + [gen(rng) for _ in range(400 if big else 60)]
    sub = run_subprocesses(specs, hash_seeds, vlib.BUILD / "C04", str(vlib.VERIF))
    found = False
    for hs, v in sub.items():
        if isinstance(v, dict):
            rep.finding(f"poly-sub:{hs}", f"polymorphic-link family: subprocess with PYTHONHASHSEED={hs} failed ({v['error']})", {"kind": "poly", "hash_seed": hs},
                        found_input=False)
            found = True
    sub = {hs: v for hs, v in sub.items() if not isinstance(v, dict)}
    info: Dict[str, Any] = {"specs": len(specs), "hash_seeds": hash_seeds, "in_process": REPS, "accepted": 0, "rejected": 0, "ties": {}, "join_steps": {},
                            "runs": {}, "diff_classes": {}, "two_frameworks": 0, "three_sources": 0, "with_exact": 0}
    terms, idx = [], []
    n_prep = 0
    n_viol = [0]
    for i, s in enumerate(specs):
        # runs are observed in the fresh interpreters only (this process carries the observation wrappers of the other families)
        outs = [outcome(s, run=False) for r in range(REPS)]
        where = [("in-process", r) for r in range(REPS)] + [(f"PYTHONHASHSEED={hs}", r) for hs in sub for r in range(REPS)]
        allo = outs + [o for hs in sub for o in sub[hs][i]]
        n_prep += len(allo)
        o0 = allo[0]
        t = tie_size(s)
        info["ties"][str(t)] = info["ties"].get(str(t), 0) + 1
        info["with_exact"] += t == -1
        info["two_frameworks"] += len({c["cfw"] for c in s["classes"]}) > 1
        info["three_sources"] += len(s["use"]) == 3
        single = len({c["cfw"] for c in s["classes"]} | {s["cons_cfw"]}) == 1
        if o0["accepted"]:
            info["accepted"] += 1
            k = str(len(o0["joins"]))
            info["join_steps"][k] = info["join_steps"].get(k, 0) + 1
            if len(o0["joins"]) >= 1:
                rep.nontrivial(("poly", json.dumps(s, sort_keys=True)))
        else:
            info["rejected"] += 1
        classes = {}
        for w, o in zip(where[1:], allo[1:]):
            c = _diff(o0, o)
            if c and c not in classes:
                classes[c] = (w, o)
        for c, (w, o) in sorted(classes.items()):
            info["diff_classes"][c] = info["diff_classes"].get(c, 0) + 1
            replay = {"kind": "poly", "spec": s, "class": c, "hash_seeds": hash_seeds}
            parts = c.split("+")
            if c not in ("joins", "accept-vs-reject", "reject-reason", "steps") and not single and all(p in KNOWN_CLASSES for p in parts):
                for p in parts:
                    rep.finding(KNOWN_CLASSES[p], f"plan differs between preparations ({p}; polymorphic-link family)", replay)
                continue
            n_viol[0] += 1
            found = True
            if n_viol[0] > 6:
                continue
            a = o0["joins"] if o0["accepted"] else [o0["exc"], o0["msg"][:80]]
            b = o["joins"] if o["accepted"] else [o["exc"], o["msg"][:80]]
            rep.finding(f"poly-nondet:{c}:{json.dumps(s, sort_keys=True)}",
                        f"polymorphic links: the same request is planned differently ({c}): classes (parent) "
                        f"{[c_['parent'] for c_ in s['classes']]}, consumer of {s['use']}, links {json.dumps(s['links'])}: "
                        f"in-process preparation 0 gives {json.dumps([j[0] for j in a] if o0['accepted'] else a)} but {w[0]} "
                        f"(preparation {w[1]}) gives {json.dumps([j[0] for j in b] if o['accepted'] else b)}", replay)
            found = True
        # run outcomes: terminate, and the same status / row count in every process
        runs = [(w, o["run"]) for w, o in zip(where, allo) if o.get("run")]
        for w, r in runs:
            k = r["status"] + (":" + r["exc"] if r.get("exc") else "")
            info["runs"][k] = info["runs"].get(k, 0) + 1
            if r["status"] == "hang":
                rep.finding(f"poly-hang:{json.dumps(s, sort_keys=True)}", f"polymorphic links: accepted plan did not return or raise within {RUN_TIMEOUT_S}s "
                            f"({w[0]}); links {json.dumps(s['links'])}", {"kind": "poly", "spec": s, "class": "hang"})
                found = True
        # status (returned / raised which class) must coincide; the row count only where it is defined by the plan: one join step
        # over two sources (with two or more join steps the rows depend on the order of the steps: known finding
        # C04-nondet-join-order-changes-rows; without a join step the consumer is handed whichever source comes first)
        nj = len(o0.get("joins", []))
        rk = {json.dumps(r if (nj == 1 and len(s["use"]) == 2) else {k: v for k, v in r.items() if k != "rows"}, sort_keys=True) for _, r in runs}
        if len(rk) > 1 and not classes:
            info["diff_classes"]["run-result"] = info["diff_classes"].get("run-result", 0) + 1
            rep.finding(f"poly-run:{json.dumps(s, sort_keys=True)}",
                        f"polymorphic links: identical plans give different run results {sorted(rk)}; classes (parent) "
                        f"{[c_['parent'] for c_ in s['classes']]}, consumer of {s['use']}, links {json.dumps(s['links'])}",
                        {"kind": "poly", "spec": s, "class": "run-result"})
            found = True
        # model
        h = cq_list(f"({cq_nat(j)}, {cq_list(cq_nat(x) for x in mro_ids(s, j))})" for j in range(len(s["classes"])))
        ps = cq_list(f"({cq_nat(a)}, {cq_nat(b)})" for a in s["use"] for b in s["use"] if a != b)
        obs = f"(Some {cq_list(cq_nat(j[1]) for j in o0['joins'])})" if o0["accepted"] else "None"
        terms.append(f"(({h}, {cq_list(cq_link(l) for l in s['links'])}, {ps}), {obs})")
        idx.append(i)
    bad, cinfo = vlib.run_cases("C04", "poly", REQ, "chk_poly", terms, extra_defs=EXTRA, case_type=POLY_TY, shard=300)
    for k in bad[:5]:
        s = specs[idx[k]]
        o0 = outcome(s, run=False)
        rep.finding(f"poly-model:{json.dumps(s, sort_keys=True)}",
                    "polymorphic links: the links of the plan's join steps differ from the model of the selection rule (request_joins): "
                    f"classes (parent) {[c_['parent'] for c_ in s['classes']]}, consumer of {s['use']}, links {json.dumps(s['links'])}, "
                    f"observed {o0.get('joins', [o0.get('exc'), o0.get('msg')])}", {"kind": "poly", "spec": s, "class": "model"})
        found = True
    info["model_disagreements"] = len(bad)
    info["nondeterministic_requests_reported_as_violation"] = n_viol[0]
    info["coq"] = {k: v for k, v in cinfo.items() if isinstance(v, (int, float, str))}
    info["preparations"] = n_prep
    LAST_INFO.clear()
    LAST_INFO.update(info)
    rep.count(n_prep)
    return found


def replay(r: Dict[str, Any]) -> None:
    from pathlib import Path
    s = r["spec"]
    verif = str(Path(__file__).resolve().parent.parent)
    sub = run_subprocesses([s], list(r.get("hash_seeds") or range(1, 7)), Path(verif) / "_build" / "C04", verif)
    outs = [("in-process", outcome(s)) for _ in range(REPS)] + [(f"PYTHONHASHSEED={hs}", o) for hs, v in sub.items() if not isinstance(v, dict) for o in v[0]]
    print("classes (parent):", [c["parent"] for c in s["classes"]], "consumer of", s["use"], "links", json.dumps(s["links"]))
    for w, o in outs:
        print(f"  {w:18s}", [j[0] for j in o["joins"]] if o["accepted"] else (o["exc"], o["msg"][:80]), o.get("run"))
    print("difference classes w.r.t. the first preparation:", sorted({str(_diff(outs[0][1], o)) for _, o in outs[1:]}))


if __name__ == "__main__":
    if "--sub" in sys.argv:
        sub_main(sys.argv[sys.argv.index("--sub") + 1])
    else:
        seed = int(sys.argv[sys.argv.index("--seed") + 1]) if "--seed" in sys.argv else 0
        n = int(sys.argv[sys.argv.index("--n") + 1]) if "--n" in sys.argv else 20
        if "--check" in sys.argv:
            class _Rep:
                def __init__(self) -> None:
                    self.n = 0
                def finding(self, key: str, what: str, replay: Any, **kw: Any) -> None:
                    print("FINDING", key[:80], "|", what[:900])
                def nontrivial(self, k: Any) -> None:
                    pass
                def count(self, n: int) -> None:
                    self.n += n
            import time
            t0 = time.time()
            r = _Rep()
            print("found:", check(r, random.Random(seed), "--big" in sys.argv, list(range(1, 7))))
            print(json.dumps(LAST_INFO), "wall", round(time.time() - t0, 1))
            os._exit(0)
        rng = random.Random(seed)
        specs = witness_specs() + [gen(rng) for _ in range(n)]
        from pathlib import Path
        verif = str(Path(__file__).resolve().parent.parent)
        sub = run_subprocesses(specs, list(range(6)), Path(verif) / "_build" / "C04", verif)
        for i, s in enumerate(specs):
            outs = [outcome(s, run=(r == 0)) for r in range(REPS)]
            allo = outs + [o for hs in sub for o in sub[hs][i]]
            keys = {plan_key(o) for o in allo}
            full = {json.dumps(o.get("steps")) for o in allo}
            orders = {json.dumps(o.get("order")) for o in allo}
            runs = {json.dumps(o["run"], sort_keys=True) for o in allo if "run" in o}
            print(i, json.dumps(s["links"]), "use", s["use"], "| plan keys", len(keys), "full", len(full), "orders", len(orders), "runs", sorted(runs))
            print("    ", sorted(keys)[0][:300])
            if len(keys) > 1:
                print("   !!", sorted(keys)[1][:300])
