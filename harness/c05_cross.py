"""C05 family `cross_over`: differently named keys, and every table ALSO carries a column named like the key of the other side.

  R0 (a, key columns li, cross-over columns named ri)   on framework ca
  R1 (b, key columns ri, cross-over columns named li)   on framework cb
  Link(jt, R0.li, R1.ri)  (orientation AB)  or  Link(jt, R1.ri, R0.li)  (orientation BA);  jt in {INNER, LEFT, OUTER}; arity 1-2
  D1 consumer over a and b, on the framework of the link's LEFT source (declared orientation) - and, sampled, of its right source
("foreign key into the same entity" schemas: orders(order_id, customer_id, referrer_id) joined to customers(customer_id,
referrer_id, cname) on orders.referrer_id = customers.customer_id.)  The cross-over columns are filled with OTHER values, chosen
so that every other assignment of the four columns to the two key roles - the exchanged one (L.ri = R.li: "the orientation
inferred from the column names"), L.li = R.li, L.ri = R.ri - matches a different set of row pairs than the declared one.

What is modelled (coq/Model/JoinCall.v, theorems coq/Props/C05keys.v): JoinStep._merge_data calls the merge engine with
link.left_index on the table of the object it merges INTO and link.right_index on the table it reads, so the join depends on
the Link's declaration and the two tables only (C05_join_keys_follow_link: tables that agree outside non-key columns give
results that agree outside those columns; C05_consumer_view_independent_of_other_columns).

Per request (SYNC; the THREADING repetition is judged only):
  chk_judge       rows received, read at the value columns (a, b) = merge_data rel_join (the Link) (left table) (right table)
                  evaluated in Coq.  Only a and b are compared: how an engine names two equally named non-key columns of its
                  operands (pandas k_x / k_y, pyarrow two fields k, python-dict overwrite) is the merge engines' business (C12);
                  a and b hold distinct values per table, so the (a, b) pairs identify the matched row pairs and the padded rows.
  chk_frame_spec  the premises of the theorem hold for the case and its conclusion is evaluated on the specification: the same
                  tables WITHOUT the cross-over columns give the same view
  chk_frame_real  conclusion on the REAL code: the same request over the tables without the cross-over columns is run too and
                  the consumer must receive the same (a, b) rows
  chk_model       the run-time join path model (Model/RoutingJ.v, JoinStep = merge_data rel_join (link of the exported step))
                  run on the exported plan in begin order: the table of the consumer's object, read at (a, b) = rows received
  chk_sensitive   (about the generator) exchanged indexes and orientation-by-column-names (merge_data_by_names) give ANOTHER
                  view on this case - a case on which they do not would not exercise the mechanism: reported, fail closed
Region (determined on the unchanged tree, 2026-10): with the consumer on the link's left framework every member is correct in
all 3 x 3 framework pairs, INNER / LEFT / OUTER, arity 1-2, both orientations, SYNC and THREADING - including the members of the
recorded domains C05-pyarrow-outer-different-key-names, C05-pyarrow-multikey-different-names-drops-right-keys (those defects
change key columns only: the (a, b) view equals the specification) and C05-pydict-left-outer-different-key-names (its failure -
a padded row lacking the right key column - cannot occur when the left table has a column of that name).  All of these are
therefore judged STRICTLY.  With the consumer on the right framework every member is in the recorded domain
C05-different-key-names-consumer-on-right-framework (kf_domain of harness/c05.py): a failure there is attributed to it.
"""
from __future__ import annotations

import copy
import itertools
import json
import random
from typing import Any, Dict, List, Optional, Sequence, Tuple

from lib import vlib
from lib.vlib import cq_list, cq_nat, cq_str

CF = ["PyArrowTable", "PandasDataFrame", "PythonDictFramework"]
VIEW = ["a", "b"]
KF_RIGHT = "C05-different-key-names-consumer-on-right-framework"
REQ_X = ["MV.Spec.Rel", "MV.Spec.JoinFrame", "MV.Model.Routing", "MV.Model.RoutingJ", "MV.Model.JoinCall"]
DEFS_X = """
Record ccase := {
  c_link : link_decl;                 (* what the Link declares: join type, left index, right index *)
  c_L : table; c_R : table;           (* the tables of the link's left / right source, WITH the cross-over columns *)
  c_cs : list col; c_ds : list col;   (* the cross-over columns of the left table (= right key names) / of the right table *)
  c_ps : list col;                    (* the columns the consumer is judged on *)
  c_obs : table;                      (* rows the consumer received *)
  c_plain : option table;             (* rows it received from the same tables without the cross-over columns *)
  c_steps : list xstep; c_sid : nat   (* steps of the run in begin order (Model/RoutingJ.v), the consumer's step id *)
}.
Definition view (c : ccase) (t : table) : table := map (proj_cols (c_ps c)) t.
Definition spec_view (c : ccase) : table := view c (merge_data rel_join (c_link c) (c_L c) (c_R c)).
Fixpoint tbl_eqb (a b : table) : bool :=
  match a, b with [], [] => true | x :: a', y :: b' => row_eqb x y && tbl_eqb a' b' | _, _ => false end.
Definition chk_judge (c : ccase) : bool := bag_eqb (view c (c_obs c)) (spec_view c).
Definition chk_frame_spec (c : ccase) : bool :=
  keyed (ld_jt (c_link c)) && disjoint_cols (ld_left (c_link c)) (c_cs c) && disjoint_cols (ld_right (c_link c)) (c_ds c)
  && disjoint_cols (c_ps c) (c_cs c ++ c_ds c)
  && tbl_eqb (view c (merge_data rel_join (c_link c) (map (drop_cols (c_cs c)) (c_L c)) (map (drop_cols (c_ds c)) (c_R c))))
             (spec_view c).
Definition chk_frame_real (c : ccase) : bool :=
  match c_plain c with Some o => bag_eqb (view c o) (view c (c_obs c)) | None => true end.
Definition chk_model (c : ccase) : bool :=
  match c_steps c with
  | [] => true
  | steps =>
    match run_x x_init steps with
    | (s, XOk) => match find (fun p => Nat.eqb (fst p) (c_sid c)) (x_seen s) with
                  | Some (_, t) => bag_eqb (view c t) (view c (c_obs c))
                  | None => false
                  end
    | _ => false
    end
  end.
Definition chk_sensitive (c : ccase) : bool :=
  let l := c_link c in
  negb (bag_eqb (view c (rel_join (ld_jt l) (ld_right l) (ld_left l) (c_L c) (c_R c))) (spec_view c))
  && negb (bag_eqb (view c (merge_data_by_names rel_join l (c_L c) (c_R c))) (spec_view c))
  && negb (bag_eqb (view c (rel_join (ld_jt l) (ld_left l) (ld_left l) (c_L c) (c_R c))) (spec_view c))
  && negb (bag_eqb (view c (rel_join (ld_jt l) (ld_right l) (ld_right l) (c_L c) (c_R c))) (spec_view c)).
Definition chk_all (c : ccase) : bool := chk_judge c && chk_frame_spec c && chk_frame_real c && chk_model c && chk_sensitive c.
"""
CHECKS = ["chk_judge", "chk_frame_spec", "chk_frame_real", "chk_model", "chk_sensitive"]
JT = {"INNER": "JInner", "LEFT": "JLeft", "RIGHT": "JRight", "OUTER": "JOuter"}


# ----------------------------------------------------------------------------------------------------------------------
# generation
# ----------------------------------------------------------------------------------------------------------------------
def gen(rng: random.Random, jt: str, arity: int, ca: str, cb: str, orient: str, consumer: str) -> Dict[str, Any]:
    from harness import c05
    li, ri = c05.gen_key_names(rng, arity, "diff_permuted" if arity > 1 and rng.random() < 0.5 else "diff_same_perm") \
        if arity > 1 else c05.gen_key_names(rng, 1, "diff")
    ident = list(range(arity))
    dom = list(range(1, 8)) if arity == 1 else [1, 2, 3]
    universe = [tuple(t) for t in itertools.product(dom, repeat=arity)]
    for _ in range(5000):
        ka, kb = c05.gen_key_data(rng, arity, "unique")
        good = c05.match_pairs(ka, kb, ident)
        if not good:
            continue                                     # no empty join (C05-pydict-empty-join-raises is another domain)
        xa = rng.sample(universe, len(ka))               # R0's columns named ri
        xb = rng.sample(universe, len(kb))               # R1's columns named li
        swapped = c05.match_pairs(xa, xb, ident)         # R0.ri = R1.li
        if not swapped or swapped == good:
            continue
        if c05.match_pairs(ka, xb, ident) == good or c05.match_pairs(xa, kb, ident) == good:
            continue                                     # R0.li = R1.li, R0.ri = R1.ri
        break
    else:
        raise RuntimeError("no cross-over data")
    spec = c05.two_way(rng, jt, li, ri, ka, kb, ca, cb, orient, consumer)
    g0, g1 = spec["groups"][0], spec["groups"][1]
    for p, n in enumerate(ri):
        g0["cols"][n] = [t[p] for t in xa]
    for p, n in enumerate(li):
        g1["cols"][n] = [t[p] for t in xb]
    for g in (g0, g1):                                   # the cross-over column may come before or after the key column
        names = list(g["cols"])
        rng.shuffle(names)
        g["cols"] = {n: g["cols"][n] for n in names}
    spec["cross"] = {"R0": list(ri), "R1": list(li)}
    spec["dims_x"] = {"jt": jt, "arity": arity, "pair": f"{ca}<-{cb}" if orient == "AB" else f"{cb}<-{ca}", "orient": orient,
                      "consumer": consumer}
    return spec


def plain_of(spec: Dict[str, Any]) -> Dict[str, Any]:
    p = copy.deepcopy(spec)
    for g in p["groups"]:
        for n in spec["cross"].get(g["name"], []):
            del g["cols"][n]
    return p


def family(rng: random.Random, big: bool) -> List[Dict[str, Any]]:
    out = []
    pairs = list(itertools.product(CF, CF))
    n = 0
    for rep_ in range(3 if big else 1):
        for jt in ("INNER", "LEFT", "OUTER"):
            for arity in (1, 2):
                for ca, cb in pairs:
                    n += 1
                    orient = "AB" if (n + rep_) % 2 else "BA"
                    out.append(gen(rng, jt, arity, ca, cb, orient, "l"))
    # consumer on the right source's framework: recorded domain, sampled
    rpairs = [(ca, cb) for ca, cb in pairs if ca != cb]
    for jt in ("INNER", "LEFT", "OUTER"):
        for ca, cb in (rpairs if big else rng.sample(rpairs, 2)):
            out.append(gen(rng, jt, 1, ca, cb, "AB", "r"))
    return out


# ----------------------------------------------------------------------------------------------------------------------
# observation
# ----------------------------------------------------------------------------------------------------------------------
def make_cap() -> Any:
    """recorder of the consumer's rows restricted to the value columns; tolerant of equally named other columns (a PyArrow
    join result holds two fields named like each cross-over column, which table_rows cannot read by name)."""
    from harness import c05
    from harness.orch import GateListener
    from harness.universe import nrows

    class CapView(c05.Cap):
        def on_enter(self, group: str, names: List[str], cols: List[str], data: Any, features: Any = None) -> None:
            GateListener.on_enter(self, group, names, cols, data, features)
            if data is None:
                return
            if isinstance(data, list):
                self.rows[group] = [{c: r[c] for c in VIEW} for r in data]
                return
            if hasattr(data, "column_names"):
                if any(list(data.column_names).count(c) != 1 for c in VIEW):
                    raise KeyError(f"value columns not unique in {data.column_names}")
                vals = {c: data.column(list(data.column_names).index(c)).to_pylist() for c in VIEW}
            else:
                vals = {c: [None if v != v else (v.item() if hasattr(v, "item") else v) for v in data[c].tolist()] for c in VIEW}
            self.rows[group] = [{c: vals[c][i] for c in VIEW} for i in range(nrows(data))]
    return CapView()


def observe(spec: Dict[str, Any], threading: bool = False) -> Dict[str, Any]:
    from harness import c05
    modes = None
    if threading:
        from mloda.user import ParallelizationMode
        modes = {ParallelizationMode.THREADING}
    return c05.one(spec, make_cap(), modes)


def term(spec: Dict[str, Any], rec: Dict[str, Any], plain_rows: Optional[List[Dict[str, Any]]], with_steps: bool) -> str:
    from harness import c05
    l = spec["links"][0]
    g = {x["name"]: x for x in spec["groups"]}
    steps = rec["route"][0] if with_steps and rec.get("route") and rec.get("consumer_sid") is not None else []
    return ("{| c_link := {| ld_jt := %s; ld_left := %s; ld_right := %s |}; c_L := %s; c_R := %s; c_cs := %s; c_ds := %s; "
            "c_ps := %s; c_obs := %s; c_plain := %s; c_steps := %s; c_sid := %s |}") % (
        JT[l["jt"]], cq_list(cq_str(c) for c in l["li"]), cq_list(cq_str(c) for c in l["ri"]),
        c05.cq_table(c05.rows_of(g[l["l"]]["cols"])), c05.cq_table(c05.rows_of(g[l["r"]]["cols"])),
        cq_list(cq_str(c) for c in spec["cross"][l["l"]]), cq_list(cq_str(c) for c in spec["cross"][l["r"]]),
        cq_list(cq_str(c) for c in VIEW), c05.cq_table(rec["rows"]),
        "None" if plain_rows is None else f"(Some {c05.cq_table(plain_rows)})",
        cq_list(steps), cq_nat(rec["consumer_sid"] if steps else 0))


def evaluate(terms: List[str], name: str) -> Tuple[Dict[int, List[str]], Dict[str, Any]]:
    """{case index: failing checkers}; one pass over chk_all, the failing cases are split per checker."""
    if not terms:
        return {}, {}
    bad, info = vlib.run_cases("C05", name, REQ_X, "chk_all", terms, extra_defs=DEFS_X, case_type="ccase", shard=40)
    out: Dict[int, List[str]] = {k: [] for k in bad}
    for chk in CHECKS if bad else []:
        sub, _ = vlib.run_cases("C05", f"{name}_{chk}", REQ_X, chk, [terms[k] for k in bad], extra_defs=DEFS_X, case_type="ccase", shard=40)
        for j in sub:
            out[bad[j]].append(chk)
    return out, info


WHAT = {"chk_judge": "the (a, b) rows the consumer received are not the join of the two tables on the key columns the Link declares "
                     "(Coq: merge_data rel_join link L R)",
        "chk_frame_real": "the consumer received other (a, b) rows than from the same tables without the cross-over columns: the join "
                          "depends on columns that are no keys of the Link (contradicts C05_consumer_view_independent_of_other_columns)",
        "chk_model": "the rows received are not the table Model/RoutingJ.v computes for the consumer's object (JoinStep = merge_data "
                     "rel_join with the link of the exported step)",
        "chk_frame_spec": "the premises or the conclusion of C05_consumer_view_independent_of_other_columns evaluate to false on a "
                          "generated case (generator or theorem statement wrong)",
        "chk_sensitive": "a generated cross-over case does not distinguish the declared keys from the exchanged ones (generator wrong)"}


def _tab(g: Dict[str, Any]) -> str:
    return "{" + ", ".join(f"{c}: {v}" for c, v in g["cols"].items()) + "}"


def describe(spec: Dict[str, Any]) -> str:
    l = spec["links"][0]
    g = {x["name"]: x for x in spec["groups"]}
    return (f"{l['jt']} Link({l['l']}.{','.join(l['li'])} = {l['r']}.{','.join(l['ri'])}), {l['l']} on {g[l['l']]['cfw']} = {_tab(g[l['l']])}, "
            f"{l['r']} on {g[l['r']]['cfw']} = {_tab(g[l['r']])}, consumer on {g['D1']['cfw']}")


def ref_view(spec: Dict[str, Any], lcols: Optional[Sequence[str]] = None, rcols: Optional[Sequence[str]] = None) -> List[Tuple[Any, Any]]:
    """(a, b) pairs of the join on the given key columns (default: the Link's) by a plain-Python reference.  For MESSAGES only:
    the verdict is the Coq evaluation (chk_judge)."""
    from harness import c05
    l = spec["links"][0]
    g = {x["name"]: x for x in spec["groups"]}
    L, R = g[l["l"]]["cols"], g[l["r"]]["cols"]
    va, vb = ("a", "b") if "a" in L else ("b", "a")
    kl, kr = c05.key_tuples(g[l["l"]], lcols or l["li"]), c05.key_tuples(g[l["r"]], rcols or l["ri"])
    pairs = sorted(c05.match_pairs(kl, kr, list(range(len(l["li"])))))
    out: List[Tuple[Any, Any]] = [(L[va][i], R[vb][j]) for i, j in pairs]
    if l["jt"] in ("LEFT", "OUTER"):
        out += [(L[va][i], None) for i in range(len(kl)) if i not in {p[0] for p in pairs}]
    if l["jt"] in ("RIGHT", "OUTER"):
        out += [(None, R[vb][j]) for j in range(len(kr)) if j not in {p[1] for p in pairs}]
    return [dict(zip((va, vb), t)) for t in out]  # type: ignore[misc]


def run_family(rep: vlib.Reporter, rng: random.Random, big: bool) -> Tuple[int, bool, Dict[str, Any]]:
    from harness import c05
    specs = family(rng, big)
    found = False
    reported = [0]

    def violation(key: str, what: str, replay_obj: Dict[str, Any]) -> None:
        reported[0] += 1
        if reported[0] <= 6:
            rep.finding(key, what, replay_obj)
    dist: Dict[str, Any] = {"requests": len(specs), "runs": 0, "status": {}, "by_jt": {}, "by_arity": {}, "by_pair": {}, "by_orient": {},
                            "by_consumer_side": {}, "judged_strictly": 0, "inside_recorded_domains_judged_strictly": {},
                            "right_consumer_in_recorded_domain": 0, "right_consumer_failures_attributed": 0,
                            "threading_runs": 0, "plain_runs": 0}
    recs, plains, thr = [], [], []
    for s in specs:
        left = s["dims_x"]["consumer"] == "l"
        recs.append(observe(s))
        plains.append(observe(plain_of(s)) if left else None)
        thr.append(observe(s, threading=True) if left else None)
        dist["runs"] += 1 + 2 * left
        dist["plain_runs"] += left
        dist["threading_runs"] += left
    terms: List[str] = []
    tidx: List[Tuple[int, str]] = []
    rterms: List[str] = []                # consumer on the right framework (recorded domain): judged only
    ridx: List[int] = []
    problems: Dict[int, List[str]] = {}
    for n, s in enumerate(specs):
        d = s["dims_x"]
        for k, v in (("by_jt", d["jt"]), ("by_arity", str(d["arity"])), ("by_pair", d["pair"]), ("by_orient", d["orient"]),
                     ("by_consumer_side", d["consumer"])):
            dist[k][v] = dist[k].get(v, 0) + 1
        rep.nontrivial(("cross", s["links"], [g.get("cfw") for g in s["groups"]], [g.get("cols") for g in s["groups"] if g["kind"] == "root"]))
        for tag, r in (("sync", recs[n]), ("plain", plains[n]), ("threading", thr[n])):
            if r is None:
                continue
            dist["status"][r["status"]] = dist["status"].get(r["status"], 0) + 1
            if r["status"] != "ok" or r.get("rows") is None:
                problems.setdefault(n, []).append(
                    f"{tag} run: " + ("request rejected at prepare: " if r["status"] == "rejected" else "the accepted request raised at run time: "
                                      if r["status"] == "raised" else "the run did not terminate " if r["status"] == "hang" else "the consumer was "
                                      "never handed data ") + str(r.get("exc") or "")[-200:])
        if d["consumer"] != "l":
            if recs[n]["status"] == "ok" and recs[n].get("rows") is not None:
                rterms.append(term(s, recs[n], None, with_steps=False))
                ridx.append(n)
            continue
        if recs[n]["status"] == "ok" and recs[n].get("rows") is not None:
            p = plains[n]
            prow = p["rows"] if p is not None and p["status"] == "ok" and p.get("rows") is not None else None
            terms.append(term(s, recs[n], prow, with_steps=True))
            tidx.append((n, "sync"))
        t = thr[n]
        if t is not None and t["status"] == "ok" and t.get("rows") is not None:
            terms.append(term(s, t, None, with_steps=False))
            tidx.append((n, "threading"))
    bad, info = evaluate(terms, "cross")
    rbad = vlib.run_cases("C05", "cross_right", REQ_X, "chk_judge", rterms, extra_defs=DEFS_X, case_type="ccase", shard=40)[0] if rterms else []
    for k in rbad:
        problems.setdefault(ridx[k], []).append(f"sync run: {WHAT['chk_judge']}")
    for k, chks in bad.items():
        n, tag = tidx[k]
        for c in chks or ["chk_all"]:
            problems.setdefault(n, []).append(f"{tag} run: {WHAT.get(c, c)}")
    for n, s in enumerate(specs):
        dom = c05.kf_domain(s)
        left = s["dims_x"]["consumer"] == "l"
        if left:
            dist["judged_strictly"] += 1
            if dom:
                dist["inside_recorded_domains_judged_strictly"][dom] = dist["inside_recorded_domains_judged_strictly"].get(dom, 0) + 1
        else:
            dist["right_consumer_in_recorded_domain"] += dom == KF_RIGHT
        if n not in problems:
            continue
        replay = {"kind": "cross", "spec": s, "status": recs[n]["status"], "exc": recs[n].get("exc"), "rows": recs[n].get("rows"),
                  "problems": problems[n]}
        what = (f"cross-over column names ({describe(s)}): " + "; ".join(problems[n][:3]) +
                (f"; rows received {json.dumps(recs[n].get('rows'))[:300]}, the Link's join has {json.dumps(ref_view(s))[:300]}, the join on "
                 f"the exchanged columns {s['links'][0]['l']}.{','.join(s['links'][0]['ri'])} = {s['links'][0]['r']}.{','.join(s['links'][0]['li'])} has "
                 f"{json.dumps(ref_view(s, s['links'][0]['ri'], s['links'][0]['li']))[:300]}" if recs[n].get("rows") is not None else ""))
        if not left and dom == KF_RIGHT:
            dist["right_consumer_failures_attributed"] += 1
            rep.finding(dom, what, replay)
        else:
            violation(f"cross-over:{json.dumps(s, sort_keys=True)}", what, replay)
            found = True
    dist["cases_evaluated"] = len(terms) + len(rterms)
    dist["cases_failing"] = len(bad) + len(rbad)
    dist["coq_eval_s"] = info.get("coq_eval_s")
    ok = [n for n, s in enumerate(specs) if n not in problems and recs[n].get("rows")]
    if ok:
        rep.sample({"family": "cross_over", "spec": specs[ok[0]], "rows_received": recs[ok[0]]["rows"]})
    return dist["runs"], found, dist


def replay(r: Dict[str, Any]) -> int:
    from harness import c05
    spec = r["spec"]
    rec = observe(spec)
    pl = observe(plain_of(spec))
    th = observe(spec, threading=True)
    print(describe(spec), "kf domain:", c05.kf_domain(spec))
    for tag, x in (("sync", rec), ("plain (no cross-over columns)", pl), ("threading", th)):
        print(tag, json.dumps({k: x.get(k) for k in ("status", "exc", "rows")}, default=str))
    if rec["status"] == "ok" and rec.get("rows") is not None:
        prow = pl["rows"] if pl["status"] == "ok" else None
        t = term(spec, rec, prow, with_steps=True)
        for chk in CHECKS:
            bad, _ = vlib.run_cases("C05", "replay_cross", REQ_X, chk, [t], extra_defs=DEFS_X, case_type="ccase")
            print(f"{chk}: {not bad}   ({WHAT[chk] if bad else 'holds'})")
    return 0
