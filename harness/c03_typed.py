"""C03, family `typed`: requests that mix DECLARED DATA TYPES with untyped features of one feature group.

The planner splits the features of one feature group into one FeatureSet / FeatureGroupStep per (group options, compute
framework, declared type); a feature without declared type joins ONE existing typed group with its options
(ExecutionPlan.group_features_by_compute_framework_and_options, modelled by coq/Model/Grouping.v group_items).  Every step that
holds a requested feature contributes one result table (coq/Model/StepTables.v).  Theorems (coq/Props/C03.v):
C03_requested_feature_in_exactly_one_step / _table, C03_tables_are_exactly_the_requested -- for every typed / untyped mix and
every iteration order of the feature set.

Universe (per compute framework pandas | arrow):
  S   root group, columns s0..s5 (DataCreator); optionally a return_data_type_rule that declares types by name
  D   derived group, features d0..d3;  d0 <- {s4},  d1 <- {s4, INT64 s5},  d2 <- {INT32 s3},  d3 <- {s4, s0}
      (s4 is an UNTYPED feature that can be requested and is a dependency; the typed input edges create typed dependency
      instances in S next to the requested ones)
A request item is [name, declared type | None, option value k | None]  (k: a group option {"k": k} -> another
(options, frameworks) class; only on root features).  Every name is requested at most once.

Per run (real mloda.run_all, SYNC, in a fresh interpreter per PYTHONHASHSEED) the worker records, without source hooks,
  calls   every call of group_features_by_compute_framework_and_options: the feature set IN ITS ITERATION ORDER (uuid renamed,
          name, options class, declared type, requested flag) and the returned dict (groups in dict order, members as sets)
  steps   the FeatureGroupSteps of the plan (member uuids, renamed)
  tables  the column names of the returned tables
and the parent compares inside Coq (vm_compute, chk_typed over the SAME definitions the theorems are about):
  every observed grouping  = Grouping.group_items under the observed iteration order, group by group in dict order,
  the steps of the plan    = those groups (the family has no dependency inside one feature group: one level per group),
  the returned tables      = StepTables.tables_of_steps of the requested flags over those steps (as a set of sets),
and judges the statement directly: every requested name occurs in exactly one returned table, exactly once, nothing else is
returned, 'alphabetical' tables are sorted.
"""
from __future__ import annotations

import itertools
import json
import logging
import os
import random
import subprocess
import sys
from pathlib import Path
from typing import Any, Dict, List, Optional, Sequence, Tuple

TYPES = ["INT32", "INT64", "FLOAT", "DOUBLE", "BOOLEAN", "STRING"]
ROOT_COLS = ["s0", "s1", "s2", "s3", "s4", "s5"]
DERIVED = {"d0": [["s4", None]], "d1": [["s4", None], ["s5", "INT64"]], "d2": [["s3", "INT32"]], "d3": [["s4", None], ["s0", None]]}
ORDERINGS: List[Optional[str]] = [None, "alphabetical", "request_order"]
RULES: List[Optional[Dict[str, str]]] = [None, {"s0": "INT32", "s1": "DOUBLE"}, {"s2": "INT64", "s5": "INT64"}]
REQ = ["MV.Model.Grouping", "MV.Model.StepTables"]

# ------------------------------------------------------------------------------------------------------------
# worker side (no Coq, no vlib): runs the real mloda
# ------------------------------------------------------------------------------------------------------------
_classes: Dict[str, Any] = {}
OBS: Dict[str, Any] = {"calls": None, "plan": None}
_installed = [False]


def _fw_class(fw: str) -> type:
    if fw == "arrow":
        from mloda_plugins.compute_framework.base_implementations.pyarrow.table import PyArrowTable
        return PyArrowTable
    from mloda_plugins.compute_framework.base_implementations.pandas.dataframe import PandasDataFrame
    return PandasDataFrame


def _values(dtype: Optional[str]) -> List[Any]:
    if dtype == "STRING":
        return ["x", "y", "z"]
    if dtype == "BOOLEAN":
        return [True, False, True]
    return [1, 2, 3]


def universe(fw: str, rule_idx: int) -> Tuple[type, type]:
    """Real feature-group classes (root S, derived D) for one framework and one return_data_type_rule."""
    key = f"{fw}/{rule_idx}"
    if key in _classes:
        return _classes[key]
    from mloda.provider import FeatureGroup, DataCreator
    from mloda.user import Feature, DataType
    fwc = _fw_class(fw)
    rule = RULES[rule_idx]

    def root_calc(cls: Any, data: Any, features: Any) -> Any:
        # a requested and a dependency instance of one name may sit in one step: the declared type of either decides the data
        declared: Dict[str, str] = {f.name.name: f.data_type.name for f in features.features if f.data_type is not None}
        cols = {c: _values(declared.get(c)) for c in ROOT_COLS}
        if fw == "arrow":
            import pyarrow as pa
            return pa.table(cols)
        import pandas as pd
        return pd.DataFrame(cols)

    def rule_fn(cls: Any, feature: Any) -> Any:
        t = (rule or {}).get(feature.name.name)
        return DataType[t] if t else None

    S = type(f"C03T_S_{fw}_{rule_idx}", (FeatureGroup,), {
        "input_data": classmethod(lambda cls: DataCreator(set(ROOT_COLS))),
        "calculate_feature": classmethod(root_calc),
        "compute_framework_rule": classmethod(lambda cls: {fwc}),
        "return_data_type_rule": classmethod(rule_fn)})

    def input_features(self: Any, options: Any, feature_name: Any) -> Any:
        return {Feature(n, data_type=DataType[t] if t else None) for n, t in DERIVED[str(feature_name)]}

    def derived_calc(cls: Any, data: Any, features: Any) -> Any:
        declared = {f.name.name: (f.data_type.name if f.data_type is not None else None) for f in features.features}
        names = sorted(str(n) for n in features.get_all_names())

        def vals(i: int, n: str) -> List[Any]:
            return [10 + i, 20 + i, 30 + i] if declared.get(n) not in ("STRING", "BOOLEAN") else _values(declared.get(n))
        if fw == "arrow":
            import pyarrow as pa
            for i, n in enumerate(names):
                if n not in data.column_names:
                    data = data.append_column(n, pa.array(vals(i, n)[: data.num_rows]))
            return data
        data = data.copy()
        for i, n in enumerate(names):
            data[n] = vals(i, n)[: len(data)]
        return data

    D = type(f"C03T_D_{fw}_{rule_idx}", (FeatureGroup,), {
        "feature_names_supported": classmethod(lambda cls: set(DERIVED)),
        "input_features": input_features,
        "calculate_feature": classmethod(derived_calc),
        "compute_framework_rule": classmethod(lambda cls: {fwc})})
    _classes[key] = (S, D)
    return S, D


def install() -> None:
    if _installed[0]:
        return
    _installed[0] = True
    from mloda.core.prepare.execution_plan import ExecutionPlan
    from mloda.core.core.engine import Engine
    orig_group = ExecutionPlan.group_features_by_compute_framework_and_options

    def group(self: Any, features: Any) -> Any:
        order = list(features)          # the iteration order the code is about to see (a set is iterated in a stable order)
        r = orig_group(self, features)
        if OBS["calls"] is not None:
            OBS["calls"].append((order, [list(v) for v in r.values()]))
        return r
    ExecutionPlan.group_features_by_compute_framework_and_options = group  # type: ignore[method-assign]
    orig_plan = Engine.create_setup_execution_plan

    def plan(self: Any, features: Any) -> Any:
        p = orig_plan(self, features)
        OBS["plan"] = p
        return p
    Engine.create_setup_execution_plan = plan  # type: ignore[method-assign]


def table_columns(t: Any) -> List[str]:
    if hasattr(t, "column_names"):
        return [str(c) for c in t.column_names]
    if hasattr(t, "columns"):
        return [str(c) for c in t.columns]
    return [f"<unknown table type {type(t).__name__}>"]


def run_case(case: Dict[str, Any]) -> Dict[str, Any]:
    """case = {"fw", "rule", "req": [[name, type, k]], "ordering"} -> observation (JSON)."""
    from mloda.user import mloda, PluginCollector, Feature, Options, DataType
    from mloda.core.core.step.feature_group_step import FeatureGroupStep
    install()
    S, D = universe(case["fw"], case["rule"])
    feats: List[Any] = []
    for name, t, k in case["req"]:
        if t is None and k is None:
            feats.append(name)          # a plain string request
        else:
            feats.append(Feature(name, Options({"k": k}) if k is not None else Options({}), data_type=DataType[t] if t else None))
    OBS["calls"], OBS["plan"] = [], None
    out: Dict[str, Any] = {"exc": None, "tables": None}
    try:
        res = mloda.run_all(feats, compute_frameworks={_fw_class(case["fw"])},
                            plugin_collector=PluginCollector.enabled_feature_groups({S, D}), column_ordering=case["ordering"])
        out["tables"] = [table_columns(t) for t in res]
    except Exception as e:  # noqa: BLE001
        msg = " ".join(str(e).split())
        out["exc"] = f"{type(e).__name__}: {msg[:100]} ... {msg[-200:]}" if len(msg) > 320 else f"{type(e).__name__}: {msg}"
    ids: Dict[Any, int] = {}
    abs_err: List[str] = []

    def fid(f: Any) -> int:
        if f.uuid not in ids:
            ids[f.uuid] = len(ids)
        return ids[f.uuid]

    def kb(f: Any) -> int:
        g = dict(f.options.group)
        if not g:
            return 0
        if list(g) == ["k"] and isinstance(g["k"], int) and 1 <= g["k"] <= 3:
            return g["k"]
        abs_err.append(f"group options {g} on {f.name}")
        return 9
    calls = []
    feats_seen: Dict[int, List[Any]] = {}
    for order, groups in OBS["calls"] or []:
        items = []
        for f in order:
            cf = f.compute_frameworks
            if cf is None or len(cf) != 1 or next(iter(cf)) is not _fw_class(case["fw"]):
                abs_err.append(f"compute frameworks {cf} on {f.name}")
            it = [fid(f), f.name.name, kb(f), f.data_type.name if f.data_type is not None else None, bool(f.initial_requested_data)]
            feats_seen[it[0]] = it
            items.append(it)
        calls.append({"items": items, "groups": [sorted(fid(f) for f in g) for g in groups]})
    steps: List[List[int]] = []
    other = 0
    for st in (OBS["plan"] or []):
        if isinstance(st, FeatureGroupStep):
            steps.append(sorted(fid(f) for f in st.features.features))
        else:
            other += 1
    out.update({"calls": calls, "steps": steps, "other_steps": other, "abs_err": abs_err[:3], "planned": OBS["plan"] is not None})
    OBS["calls"], OBS["plan"] = None, None
    return out


def worker_main(job_path: str, out_path: str) -> None:
    logging.disable(logging.CRITICAL)
    job = json.load(open(job_path))
    res = [run_case(c) for c in job["cases"]]
    json.dump({"hashseed": os.environ.get("PYTHONHASHSEED"), "obs": res}, open(out_path, "w"))


# ------------------------------------------------------------------------------------------------------------
# parent side
# ------------------------------------------------------------------------------------------------------------
def group_of(name: str) -> str:
    return "S" if name in ROOT_COLS else "D"


def interesting(req: Sequence[Sequence[Any]], rule: Optional[Dict[str, str]]) -> bool:
    """The mechanism: in one feature group and one options class the REQUEST declares >= 2 different types and has an
    untyped requested feature (effective type: the declared one or the group's rule)."""
    by: Dict[Tuple[str, Any], List[Optional[str]]] = {}
    for name, t, k in req:
        eff = t or ((rule or {}).get(name) if group_of(name) == "S" else None)
        by.setdefault((group_of(name), k), []).append(eff)
    return any(None in ts and len({t for t in ts if t}) >= 2 for ts in by.values())


def gen_requests(rng: random.Random, n: int) -> List[Tuple[int, List[List[Any]]]]:
    """(rule index, request as a SET of items).  Most requests lie in the `interesting` domain."""
    out: List[Tuple[int, List[List[Any]]]] = []
    # the shapes of the mechanism, always present
    out += [(0, [["s0", "INT32", None], ["s1", "INT64", None], ["s2", None, None]]),
            (0, [["s0", "INT32", None], ["s1", "DOUBLE", None], ["s2", None, None], ["s3", None, None]]),
            (0, [["d0", "INT32", None], ["d1", "INT64", None], ["d2", None, None]]),
            (0, [["d0", "INT64", None], ["s4", None, None], ["s0", "INT32", None], ["s1", "INT64", None]]),
            (0, [["d1", None, None], ["s4", None, None], ["s0", "INT32", None]]),           # typed DEPENDENCY s5 + typed request
            (0, [["d2", None, None], ["d1", "DOUBLE", None], ["s4", None, None], ["s2", None, None]]),
            (1, [["s0", None, None], ["s1", None, None], ["s2", None, None]]),              # the types come from the rule
            (2, [["s2", None, None], ["s0", "FLOAT", None], ["s4", None, None], ["d3", None, None]]),
            (0, [["s0", "INT32", None], ["s1", "INT64", 1], ["s2", None, None], ["s3", None, 1]]),   # two option classes
            (0, [["s0", "STRING", None], ["s1", "BOOLEAN", None], ["s2", None, None]]),
            # controls: no / one declared type
            (0, [["s0", None, None], ["s1", None, None], ["s2", None, None]]),
            (0, [["s0", "INT32", None], ["s2", None, None], ["s1", "INT32", None]]),
            (0, [["s0", "INT32", None], ["s1", "INT64", None]])]
    tries = 0
    seen = {json.dumps(sorted(r)) + str(ri) for ri, r in out}
    while len(out) < n and tries < 200 * n:
        tries += 1
        ri = rng.choice([0, 0, 0, 1, 2])
        size = rng.choice([2, 3, 3, 3, 4, 4, 5])
        pool = ROOT_COLS + list(DERIVED) if rng.random() < 0.6 else (ROOT_COLS if rng.random() < 0.7 else list(DERIVED) + ["s4", "s0"])
        names = rng.sample(pool, min(size, len(pool)))
        opt_mode = rng.random() < 0.2
        req = []
        for nm in names:
            t = rng.choice([None, None, None] + TYPES[:4] * 2 + TYPES[4:])
            if (RULES[ri] or {}).get(nm) and group_of(nm) == "S" and t is not None:
                t = rng.choice([None, RULES[ri][nm]])     # a declared type must agree with the group's rule (else: rejected)
            k = rng.choice([None, 1, 2]) if opt_mode and group_of(nm) == "S" else None
            req.append([nm, t, k])
        if not interesting(req, RULES[ri]) and rng.random() < 0.8:
            continue
        key = json.dumps(sorted(req, key=json.dumps)) + str(ri)
        if key in seen:
            continue
        seen.add(key)
        out.append((ri, req))
    return out


def gen_cases(rng: random.Random, big: bool) -> List[Dict[str, Any]]:
    cases: List[Dict[str, Any]] = []
    for bi, (ri, req) in enumerate(gen_requests(rng, 260 if big else 44)):
        perms = list(itertools.permutations(req))
        full = len(req) <= 3 or (big and len(req) <= 4)
        if not full:
            perms = [perms[0]] + rng.sample(perms[1:], 11 if big else 3)
        for pi, p in enumerate(perms):
            fws = ["pandas", "arrow"] if (bi < 13 or big) else [("pandas", "arrow")[(bi + pi) % 2]]
            for fw in fws:
                ords = ORDERINGS if (bi < 13 or big or pi == 0) else [ORDERINGS[(bi + pi) % 3]]
                for o in ords:
                    cases.append({"fw": fw, "rule": ri, "req": [list(x) for x in p], "ordering": o})
    return cases


def run_worker(cases: List[Dict[str, Any]], hashseed: int, tag: str, timeout: int = 1500) -> Dict[str, Any]:
    from lib import vlib
    d = vlib.BUILD / "C03" / "jobs"
    d.mkdir(parents=True, exist_ok=True)
    jp, op = d / f"typed_{tag}.job.json", d / f"typed_{tag}.out.json"
    jp.write_text(json.dumps({"cases": cases}))
    if op.exists():
        op.unlink()
    env = dict(os.environ)
    env["PYTHONHASHSEED"] = str(hashseed)
    env["PYTHONPATH"] = f"{vlib.REPO}:{vlib.VERIF}"
    try:
        p = subprocess.run([vlib.PY, str(Path(__file__).resolve()), str(jp), str(op)], env=env, timeout=timeout,
                           stdout=subprocess.PIPE, stderr=subprocess.STDOUT, text=True, errors="replace")
        if p.returncode != 0 or not op.exists():
            return {"error": f"worker rc={p.returncode}: {p.stdout[-1500:]}", "obs": []}
        return json.loads(op.read_text())  # type: ignore[no-any-return]
    except subprocess.TimeoutExpired:
        return {"error": "worker timeout", "obs": []}
    finally:
        for f in (jp, op):
            if f.exists():
                f.unlink()


EXTRA = """
Definition subset_n (a b : list nat) : bool := forallb (fun x => existsb (Nat.eqb x) b) a.
Definition set_eqb_n (a b : list nat) : bool := subset_n a b && subset_n b a && Nat.eqb (List.length a) (List.length b).
Fixpoint list_eqb_t {A : Type} (e : A -> A -> bool) (a b : list A) : bool :=
  match a, b with [] , [] => true | x :: a', y :: b' => e x y && list_eqb_t e a' b' | _, _ => false end.
(* two families of sets: every member of one has an equal member in the other, and equally many *)
Definition sos_eqb (a b : list (list nat)) : bool :=
  forallb (fun x => existsb (set_eqb_n x) b) a && forallb (fun y => existsb (set_eqb_n y) a) b
  && Nat.eqb (List.length a) (List.length b).
(* calls: (feature set in iteration order, groups of the returned dict in dict order); requested uuids; steps of the plan;
   returned tables (requested uuid per column) *)
Definition tcase := (list (list item * list (list nat)) * list nat * list (list nat) * list (list nat))%type.
Definition model_steps (c : tcase) : list (list nat) := let '(calls, _, _, _) := c in flat_map (fun cl => group_steps (fst cl)) calls.
Definition chk_groups (c : tcase) : bool :=
  let '(calls, _, _, _) := c in forallb (fun cl => list_eqb_t set_eqb_n (group_steps (fst cl)) (snd cl)) calls.
Definition chk_steps (c : tcase) : bool := let '(_, _, steps, _) := c in sos_eqb (model_steps c) steps.
Definition chk_tables (c : tcase) : bool :=
  let '(_, rq, _, tabs) := c in sos_eqb (tables_of_steps (fun u => existsb (Nat.eqb u) rq) (model_steps c)) tabs.
Definition chk_typed (c : tcase) : bool := chk_groups c && chk_steps c && chk_tables c.
"""


def _nl(xs: Sequence[int]) -> str:
    from lib.vlib import cq_list, cq_nat
    return cq_list(cq_nat(x) for x in xs)


def case_term(o: Dict[str, Any], tabs_ids: List[List[int]]) -> str:
    from lib.vlib import cq_list, cq_nat
    calls = []
    rq: List[int] = []
    for cl in o["calls"]:
        items = cq_list(f"{{| it_id := {cq_nat(i)}; it_kb := {cq_nat(kb)}; it_ty := "
                        f"{'None' if t is None else '(Some ' + cq_nat(TYPE_IDX[t]) + ')'} |}}" for i, _n, kb, t, _r in cl["items"])
        calls.append(f"({items}, {cq_list(_nl(g) for g in cl['groups'])})")
        rq += [i for i, _n, _kb, _t, r in cl["items"] if r]
    return f"({cq_list(calls)}, {_nl(sorted(set(rq)))}, {cq_list(_nl(s) for s in o['steps'])}, {cq_list(_nl(t) for t in tabs_ids)})"


TYPE_IDX = {t: i for i, t in enumerate(["INT32", "INT64", "FLOAT", "DOUBLE", "BOOLEAN", "STRING", "BINARY", "DATE",
                                        "TIMESTAMP_MILLIS", "TIMESTAMP_MICROS", "DECIMAL"])}


def judge(case: Dict[str, Any], tables: List[List[str]]) -> List[str]:
    """The statement of C03 evaluated directly on the returned tables."""
    fails: List[str] = []
    names = [r[0] for r in case["req"]]
    for n in names:
        hits = sum(t.count(n) for t in tables)
        holders = sum(1 for t in tables if n in t)
        if hits != 1 or holders != 1:
            fails.append(f"requested feature {n!r} is returned {hits} times in {holders} tables (expected once, in one table)")
    for t in tables:
        for c in t:
            if c not in names:
                fails.append(f"column {c!r} was not requested but is returned")
        if case["ordering"] == "alphabetical" and t != sorted(t):
            fails.append(f"'alphabetical' table {t} is not sorted")
    return fails


def describe(case: Dict[str, Any]) -> str:
    def item(r: Sequence[Any]) -> str:
        return f"{r[1] + ' ' if r[1] else ''}{r[0]!r}" + (f"{{k:{r[2]}}}" if r[2] is not None else "")
    rule = RULES[case["rule"]]
    return (f"run_all([{', '.join(item(r) for r in case['req'])}], column_ordering={case['ordering']!r}, {case['fw']}"
            + (f", return_data_type_rule {rule}" if rule else "") + ")")


def run_family(rep: Any, tier: str, seed: int, submit: Any = None) -> Any:
    """Starts the worker subprocesses (through `submit`, an executor's submit, if given) and returns a function that
    evaluates the results and reports; that function returns True when a failure was reported."""
    big = tier == "thorough"
    rng = random.Random(seed * 104729 + 17)
    cases = gen_cases(rng, big)
    hashseeds = list(range(6)) if big else [0, 1, 2]
    nsplit = 4 if big else 1
    chunks = [cases[i::nsplit] for i in range(nsplit)]
    jobs = [(hs, ci, ch) for hs in hashseeds for ci, ch in enumerate(chunks)]
    if submit is None:
        from concurrent.futures import ThreadPoolExecutor
        ex = ThreadPoolExecutor(max_workers=8)
        submit = ex.submit
    futs = [submit(run_worker, ch, hs, f"{hs}_{ci}") for hs, ci, ch in jobs]

    def finish() -> bool:
        from lib import vlib
        found = False
        runs: List[Tuple[Dict[str, Any], Dict[str, Any], int]] = []
        for (hs, ci, ch), f in zip(jobs, futs):
            r = f.result()
            if r.get("error") or len(r.get("obs", [])) != len(ch):
                rep.finding(f"typed-worker-failed:{hs}_{ci}", f"typed-family worker (hash seed {hs}) failed: {str(r.get('error'))[:300]}",
                            {"kind": "typed-worker"}, found_input=False)
                found = True
                continue
            runs += [(c, o, hs) for c, o in zip(ch, r["obs"])]
        rep.count(len(runs))
        terms: Dict[str, Tuple[Dict[str, Any], Dict[str, Any], int]] = {}
        stats = {"runs": len(runs), "raised": 0, "statement_failures": 0, "in_mechanism_domain": 0, "grouping_calls": 0,
                 "calls_with_2_typed_groups_and_untyped": 0, "untyped_requested_and_dependency": 0, "max_steps": 0,
                 "by_framework": {}, "by_ordering": {}, "by_tables": {}, "requests_by_size": {}, "with_rule": 0, "with_options": 0}
        first_group_of_untyped: Dict[str, set] = {}
        reported = 0
        for c, o, hs in runs:
            rp = {"kind": "typed", "case": c, "hashseed": hs, "tables": o.get("tables"), "exc": o.get("exc"), "steps": o.get("steps"),
                  "calls": o.get("calls")}
            stats["by_framework"][c["fw"]] = stats["by_framework"].get(c["fw"], 0) + 1
            stats["by_ordering"][str(c["ordering"])] = stats["by_ordering"].get(str(c["ordering"]), 0) + 1
            stats["requests_by_size"][str(len(c["req"]))] = stats["requests_by_size"].get(str(len(c["req"])), 0) + 1
            stats["with_rule"] += int(c["rule"] != 0)
            stats["with_options"] += int(any(r[2] is not None for r in c["req"]))
            dom = interesting(c["req"], RULES[c["rule"]])
            stats["in_mechanism_domain"] += int(dom)
            if dom:
                rep.nontrivial(("t", c["fw"], c["rule"], c["req"], c["ordering"]))
            if o["abs_err"] or o["other_steps"]:
                rep.finding(f"typed-abstraction:{json.dumps(c)}", f"{describe(c)}: outside the modelled abstraction: "
                            f"{o['abs_err']} / {o['other_steps']} steps that are no FeatureGroupStep", rp, found_input=False)
                found = True
                continue
            if o["exc"] is not None:
                stats["raised"] += 1
                if reported < 8:
                    reported += 1
                    rep.finding(f"typed-exception:{json.dumps(c)}", f"{describe(c)} [hash seed {hs}] raised {o['exc']}", rp)
                found = True
                continue
            stats["grouping_calls"] += len(o["calls"])
            stats["max_steps"] = max(stats["max_steps"], len(o["steps"]))
            stats["by_tables"][str(len(o["tables"]))] = stats["by_tables"].get(str(len(o["tables"])), 0) + 1
            for cl in o["calls"]:
                typed = {(kb, t) for _i, _n, kb, t, _r in cl["items"] if t}
                if any(t is None and len({tt for kk, tt in typed if kk == kb}) >= 2 for _i, _n, kb, t, _r in cl["items"]):
                    stats["calls_with_2_typed_groups_and_untyped"] += 1
                    for i, n, kb, t, r in cl["items"]:
                        if t is None and r:
                            g = next(g for g in cl["groups"] if i in g)
                            ty = sorted({tt for j, _n, _kb, tt, _r in cl["items"] if j in g and tt})
                            first_group_of_untyped.setdefault(json.dumps([sorted(c["req"], key=json.dumps), c["rule"], n]), set()).add(json.dumps(ty))
                reqd = {n for _i, n, _kb, _t, r in cl["items"] if r}
                deps = {n for _i, n, _kb, _t, r in cl["items"] if not r}
                stats["untyped_requested_and_dependency"] += int(bool(reqd & deps))
            # the statement itself
            fails = judge(c, o["tables"])
            if fails:
                stats["statement_failures"] += 1
                if reported < 8:
                    reported += 1
                    rep.finding(f"typed-e2e:{json.dumps(c)}", f"{describe(c)} [hash seed {hs}] returned {o['tables']}: {fails[0]}"
                                + (f" (+{len(fails) - 1} more)" if len(fails) > 1 else "")
                                + f"; steps of the plan (feature instances): {named_steps(o)}", {**rp, "failures": fails})
                found = True
            # the model under the observed iteration orders
            name_to_id: Dict[str, int] = {}
            ambiguous_name = False
            for cl in o["calls"]:
                for i, n, _kb, _t, r in cl["items"]:
                    if r:
                        ambiguous_name = ambiguous_name or (n in name_to_id and name_to_id[n] != i)
                        name_to_id[n] = i
            if ambiguous_name or sorted(name_to_id) != sorted(r[0] for r in c["req"]):
                rep.finding(f"typed-requested-instances:{json.dumps(c)}", f"{describe(c)}: the requested feature instances seen by the "
                            f"planner {sorted(name_to_id)} are not the requested names", rp)
                found = True
                continue
            tabs_ids = [[name_to_id[col] for col in t if col in name_to_id] for t in o["tables"]]
            t = case_term(o, tabs_ids)
            terms.setdefault(t, (c, o, hs))
        tl = list(terms.items())
        bad, info = vlib.run_cases("C03", "typed", REQ, "chk_typed", [t for t, _ in tl], case_type="tcase", extra_defs=EXTRA, shard=400)
        for i in bad[:5]:
            c, o, hs = tl[i][1]
            rep.finding(f"typed-model:{json.dumps(c)}",
                        f"{describe(c)} [hash seed {hs}]: grouping / steps / result tables differ from Model.group_items + "
                        f"StepTables.tables_of_steps under the observed set order: groups {[cl['groups'] for cl in o['calls']]} of "
                        f"{[[it[:4] for it in cl['items']] for cl in o['calls']]}, steps {o['steps']}, tables {o['tables']}",
                        {"kind": "typed", "case": c, "hashseed": hs, "tables": o["tables"], "steps": o["steps"], "calls": o["calls"]})
            found = True
        stats["untyped_requested_feature_seen_in_different_typed_groups"] = sum(1 for v in first_group_of_untyped.values() if len(v) > 1)
        rep.add("typed_family", {**stats, **info, "distinct_terms": len(tl), "disagreements": len(bad), "hash_seeds": hashseeds,
                                 "rule": "requests of 2-5 names over a root group (6 columns) and a derived group (4 features, typed and "
                                         "untyped input edges), each name with a declared type from {None, INT32, INT64, FLOAT, DOUBLE, "
                                         "BOOLEAN, STRING} (or from the group's return_data_type_rule) and optionally a group option; "
                                         "all permutations of requests of <= 3 names (thorough: <= 4), sampled ones above; 3 orderings; "
                                         "pandas and pyarrow; non-trivial = in the mechanism's domain (one group and options class with "
                                         ">= 2 declared types and an untyped requested feature), distinct by ordered request, "
                                         "framework, ordering"})
        return found
    return finish


def named_steps(o: Dict[str, Any]) -> List[List[str]]:
    nm = {it[0]: (f"{it[3]} " if it[3] else "") + it[1] + ("" if it[4] else " (dependency)") for cl in o["calls"] for it in cl["items"]}
    return [[nm.get(i, str(i)) for i in s] for s in o["steps"]]


def replay(r: Dict[str, Any]) -> int:
    out = run_worker([r["case"]], int(r["hashseed"]), "replay")
    if out.get("error"):
        print(out["error"])
        return 1
    o = out["obs"][0]
    print(describe(r["case"]))
    print("now: tables =", o["tables"], "exc =", o["exc"], "steps =", named_steps(o))
    print("recorded: tables =", r.get("tables"), "exc =", r.get("exc"))
    if o["exc"] is None:
        print("statement failures now:", judge(r["case"], o["tables"]))
    return 0


if __name__ == "__main__":
    worker_main(sys.argv[1], sys.argv[2])
