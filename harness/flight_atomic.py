"""The Arrow Flight store as the runtime uses it (C06 / C09 treat it as a reliable key-value store): an upload that REPLACES a key
is atomic for readers - a download that overlaps the re-upload gets the old or the new table, never "key missing" / "empty store".
MULTIPROCESSING re-uploads a compute framework's table under its uuid after every step with requested features while the main
process and other workers download it.

check(n_rounds) -> list of problems (empty = fine).  One long-lived server process (the harness's), big tables so that an upload
stream stays open for a while, a reader thread hammering do_get during every re-upload."""
from __future__ import annotations

import threading
import time
from typing import Any, List


def check(n_rounds: int = 12, rows: int = 400_000) -> List[str]:
    import pyarrow as pa
    from mloda.core.runtime.flight.flight_server import FlightServer
    from harness.orch import flight_server
    loc = flight_server().get_location()
    key = "verif-atomic-key"
    other = "verif-atomic-other"
    t_old = pa.table({"a": list(range(rows)), "v": [0] * rows})
    FlightServer.upload_table(loc, t_old, key)
    problems: List[str] = []
    stats = {"gets": 0, "during": 0}
    cur = 0                                    # value of column v in the table currently stored
    for with_other in (False, True):          # alone in the store ("empty apache flight") / next to another key (KeyError)
        if with_other:
            FlightServer.upload_table(loc, pa.table({"x": [1]}), other)
        for rnd in range(1, n_rounds + 1):
            stop = threading.Event()
            uploading = threading.Event()
            errs: List[str] = []
            new = cur + 1
            allowed = {cur, new}

            def reader() -> None:
                while not stop.is_set():
                    try:
                        t = FlightServer.download_table(loc, key)
                        stats["gets"] += 1
                        stats["during"] += int(uploading.is_set())
                        vs = set(t.column("v").slice(0, 1).to_pylist())
                        if t.num_rows != rows or not vs <= allowed:
                            errs.append(f"download returned a table that is neither the old nor the new one (rows {t.num_rows}, v {vs})")
                    except Exception as e:  # noqa: BLE001
                        errs.append(f"download during a re-upload of the same key failed: {type(e).__name__}: {str(e)[-160:]}")
                        return
            th = threading.Thread(target=reader, daemon=True)
            th.start()
            time.sleep(0.01)
            uploading.set()
            FlightServer.upload_table(loc, pa.table({"a": list(range(rows)), "v": [new] * rows}), key)
            uploading.clear()
            cur = new
            time.sleep(0.01)
            stop.set()
            th.join(30)
            if errs:
                problems.append(f"round {rnd} ({'another key present' if with_other else 'only key of the store'}): {errs[0]}")
                break
    try:
        FlightServer.drop_tables(loc, {key, other})
    except Exception:  # noqa: BLE001
        pass
    check.stats = dict(stats)          # type: ignore[attr-defined]
    return problems
