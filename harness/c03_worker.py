"""C03 worker: runs the REAL mloda on generated feature graphs inside one process (one PYTHONHASHSEED).

Invoked by harness/c03.py as a subprocess:  python harness/c03_worker.py <job.json> <out.json>
(also importable: run_job(job) -> result dict, used by replay and by the in-process part of the check).

A job = {"universe": U, "config": C, "cases": [[names...], ordering], "unit": {"seed": s, "n": k}}.
Nothing here knows about Coq; it only records observations:
  trace    : every Engine.add_feature_to_collection call  (group id, name, key, flag, returned value)
  coll     : Engine.feature_group_collection after planning
  calls    : every ComputeFramework.identify_naming_convention call (iteration order of the FeatureName set, columns,
             ordering, result)
  tables   : column names of every returned table, in order
  orders   : iteration orders of the sets the engine iterates (input_features(), matched filters, links)
A case may name an execution mode (config["mode"]: SYNC | THREADING | MULTIPROCESSING; job["flight"] = location of the
Flight server started by the parent check).  All of the above is recorded in THIS process also then: planning happens
before the run, and the selection of the result columns (identify_naming_convention) is done by the orchestrator's
process after a worker thread finished / after the table uploaded by a worker PROCESS was downloaded.  What happens inside
worker processes comes back through a file (harness/mp_obs.py):
  uploads      : columns of every table a worker process uploaded to the Flight store (the whole object, all columns)
  child_events : add_feature_to_collection / identify_naming_convention calls made inside a worker process (none expected)
"""
from __future__ import annotations

import json
import logging
import os
import random
import sys
from typing import Any, Dict, List, Optional

logging.disable(logging.CRITICAL)

from harness import mp_obs  # noqa: E402

FW_NAMES = ("arrow", "pandas", "pydict")


class Rec:
    def __init__(self) -> None:
        self.reset()

    def reset(self) -> None:
        self.trace: List[list] = []
        self.coll: Optional[List[list]] = None
        self.calls: List[dict] = []
        self.inputs: Dict[int, List[List[str]]] = {}
        self.filters: Dict[int, List[List[str]]] = {}
        self.links: Optional[List[list]] = None
        self.abstraction_errors: List[str] = []
        self.plan_obj: Any = None


REC = Rec()
_GID: Dict[type, int] = {}
_installed = False


def feature_key(f: Any, fw_cls: type) -> int:
    """Abstraction of everything Feature.__eq__ compares besides the name: 0 = no child_options (requested, filter and
    index features), 1 = child_options set (a dependency).  Anything else in the generated universes is unexpected."""
    if f.options.group or f.domain is not None or f.data_type is not None:
        REC.abstraction_errors.append(f"unexpected attributes on {f.name}")
    if f.compute_frameworks != {fw_cls}:
        REC.abstraction_errors.append(f"unexpected compute_frameworks on {f.name}: {f.compute_frameworks}")
    if f.child_options is None:
        return 0
    if f.child_options.group:
        REC.abstraction_errors.append(f"non-empty child_options on {f.name}")
    return 1


CUR = {"fw": "arrow"}


def fw_cls_getter() -> type:
    return fw_class(CUR["fw"])


def install() -> None:
    global _installed
    if _installed:
        return
    _installed = True
    from mloda.core.core.engine import Engine
    from mloda.core.abstract_plugins.compute_framework import ComputeFramework
    from mloda.core.filter.global_filter import GlobalFilter

    orig_add = Engine.add_feature_to_collection

    def add(self: Any, fgc: Any, feature: Any, child_uuid: Any, if_index_feature: bool = False) -> bool:
        r = orig_add(self, fgc, feature, child_uuid, if_index_feature)
        if mp_obs.in_child():
            mp_obs.emit({"ev": "child-add", "name": feature.name.name})
        REC.trace.append([_GID.get(fgc, -1), feature.name.name, feature_key(feature, fw_cls_getter()),
                          bool(feature.initial_requested_data), bool(r)])
        return r

    Engine.add_feature_to_collection = add  # type: ignore[method-assign]

    orig_plan = Engine.create_setup_execution_plan

    def plan(self: Any, features: Any) -> Any:
        if self.links is not None:
            REC.links = [[_GID.get(l.left_feature_group, -1), list(l.left_index.index),
                          _GID.get(l.right_feature_group, -1), list(l.right_index.index)] for l in self.links]
        try:
            REC.plan_obj = orig_plan(self, features)
            return REC.plan_obj
        finally:
            REC.coll = sorted([_GID.get(g, -1), f.name.name, feature_key(f, fw_cls_getter()), bool(f.initial_requested_data)]
                              for g, fs in self.feature_group_collection.items() for f in fs)

    Engine.create_setup_execution_plan = plan  # type: ignore[method-assign]

    orig_ident = ComputeFramework.identify_naming_convention

    def ident(self: Any, selected_feature_names: Any, column_names: Any, ordering: Any = None) -> Any:
        it = [f.name for f in selected_feature_names]
        call = {"iter": it, "cols": sorted(column_names), "ordering": ordering}
        if mp_obs.in_child():
            mp_obs.emit({"ev": "child-ident", "iter": it})
        try:
            r = orig_ident(self, selected_feature_names, column_names, ordering)
        except ValueError:
            call["kind"], call["res"] = "err", []
            REC.calls.append(call)
            raise
        call["kind"] = "set" if isinstance(r, (set, frozenset)) else "list"
        call["res"] = sorted(r) if call["kind"] == "set" else list(r)
        REC.calls.append(call)
        return r

    ComputeFramework.identify_naming_convention = ident  # type: ignore[method-assign]

    orig_match = GlobalFilter.identity_matched_filters

    def match(self: Any, feature_group: Any, feat: Any, dac: Any = None) -> Any:
        r = orig_match(self, feature_group, feat, dac)
        REC.filters.setdefault(_GID.get(feature_group, -1), []).append([f.filter_feature.name.name for f in r])
        return r

    GlobalFilter.identity_matched_filters = match  # type: ignore[method-assign]


# ------------------------------------------------------------------------------------------------------------
_universe_cache: Dict[str, Any] = {}


def fw_class(fw: str) -> type:
    if fw == "arrow":
        from mloda_plugins.compute_framework.base_implementations.pyarrow.table import PyArrowTable
        return PyArrowTable
    if fw == "pandas":
        from mloda_plugins.compute_framework.base_implementations.pandas.dataframe import PandasDataFrame
        return PandasDataFrame
    from mloda_plugins.compute_framework.base_implementations.python_dict.python_dict_framework import PythonDictFramework
    return PythonDictFramework


def column_values(col: str, n: int = 3) -> List[int]:
    h = sum(ord(c) for c in col) % 7
    return [h + i + 1 for i in range(n)]


def make_native(fw: str, cols: List[str]) -> Any:
    if fw == "arrow":
        import pyarrow as pa
        return pa.table({c: column_values(c) for c in cols})
    if fw == "pandas":
        import pandas as pd
        return pd.DataFrame({c: column_values(c) for c in cols})
    return [{c: column_values(c)[i] for c in cols} for i in range(3)]


def add_columns(fw: str, data: Any, new: Dict[str, List[int]]) -> Any:
    if fw == "arrow":
        import pyarrow as pa
        for c, v in new.items():
            if c not in data.column_names:
                data = data.append_column(c, pa.array(v[: data.num_rows] + [0] * max(0, data.num_rows - len(v))))
        return data
    if fw == "pandas":
        if not CUR.get("inplace"):
            data = data.copy()
        for c, v in new.items():
            data[c] = (v + [0] * len(data))[: len(data)]
        return data
    out = []
    for i, row in enumerate(data):
        r = row if CUR.get("inplace") else dict(row)
        for c, v in new.items():
            r[c] = v[i] if i < len(v) else 0
        out.append(r)
    return out


def build_universe(U: dict, fw: str, tag: str) -> Dict[int, type]:
    """Real feature-group classes for the universe description U (see harness/c03.py UNIVERSES)."""
    key = json.dumps([U, fw, tag], sort_keys=True)
    if key in _universe_cache:
        return _universe_cache[key]
    from mloda.provider import FeatureGroup, DataCreator
    from mloda.user import Feature, Index
    fwc = fw_class(fw)
    classes: Dict[int, type] = {}
    for g in U["groups"]:
        gid = g["id"]
        d: Dict[str, Any] = {"compute_framework_rule": classmethod(lambda cls, _f=fwc: {_f})}
        if g["kind"] == "root":
            d["input_data"] = classmethod(lambda cls, _c=tuple(g["creator"]): DataCreator(set(_c)))
            def root_calc(cls: Any, data: Any, features: Any, _c: Any = tuple(g["cols"])) -> Any:
                # in-place cases: a NARROW root that produces exactly the columns of the features it is asked for (the object's
                # table then consists of requested columns only until a later step adds to it); otherwise all its columns
                if CUR.get("inplace"):
                    want = {str(n).split("~")[0] for n in features.get_all_names()}
                    return make_native(fw, [c for c in _c if c.split("~")[0] in want])
                return make_native(fw, list(_c))
            d["calculate_feature"] = classmethod(root_calc)
        else:
            def input_features(self: Any, options: Any, feature_name: Any, _i: Any = tuple(g["inputs"]), _g: int = gid) -> Any:
                s = {Feature(n) for n in _i}
                REC.inputs.setdefault(_g, []).append([f.name.name for f in s])
                return s

            def calculate_feature(cls: Any, data: Any, features: Any, _m: Any = dict(g.get("multi", {}))) -> Any:
                new: Dict[str, List[int]] = {}
                for n in sorted(features.get_all_names()):
                    base = n.split("~")[0]
                    if base in _m:
                        for i in range(_m[base]):
                            new[f"{base}~{i}"] = column_values(f"{base}~{i}")
                    else:
                        new[n] = column_values(n)
                return add_columns(fw, data, new)

            d["input_features"] = input_features
            d["calculate_feature"] = classmethod(calculate_feature)
            d["feature_names_supported"] = classmethod(lambda cls, _s=tuple(g["supported"]): set(_s))
        if g.get("index"):
            d["index_columns"] = classmethod(lambda cls, _ix=tuple(tuple(i) for i in g["index"]): [Index(i) for i in _ix])
        # reachable as harness.dynclasses.<name>: MULTIPROCESSING pickles every step with its feature group class
        c = mp_obs.register_class(type(f"C03_{tag}_{fw}_{g['name']}", (FeatureGroup,), d))
        classes[gid] = c
    _universe_cache[key] = classes
    return classes


def table_columns(t: Any) -> List[str]:
    if hasattr(t, "column_names"):
        return list(t.column_names)
    if hasattr(t, "columns"):
        return [str(c) for c in t.columns]
    if isinstance(t, list):
        keys: List[str] = []
        for row in t:
            for k in row:
                if k not in keys:
                    keys.append(k)
        return keys
    return [f"<unknown table type {type(t).__name__}>"]


_SINK: List[Any] = []


def _sink() -> Any:
    if not _SINK:
        from lib import vlib
        _SINK.append(mp_obs.Sink(str(vlib.BUILD / "C03" / "mp" / f"child_{os.getpid()}.jsonl")))
    return _SINK[0]


def exported_plan_and_footprint() -> Optional[Dict[str, Any]]:
    """Steps of the plan of the last run_all (renamed uuids, required uuids, kinds, frameworks) and, per step, the
    compute-framework object it wrote / read in the run just finished (harness/orch.py wrappers; SYNC run in this
    process).  Input of conflict_free / conflict_free_x (Model/OrchCheck.v) and of the join-domain predicate."""
    import types
    from harness import orch
    from harness.universe import export_plan
    if REC.plan_obj is None:
        return None
    shim = types.SimpleNamespace(engine=types.SimpleNamespace(execution_planner=REC.plan_obj))
    plan = export_plan(shim, None)
    u2s = {st.uuid: i for i, st in enumerate(REC.plan_obj)}
    objs: Dict[Any, int] = {}

    def oid(x: Any) -> int:
        if x not in objs:
            objs[x] = len(objs) + 1
        return objs[x]
    foot = {u2s[k]: [oid(w), [oid(w)] + ([oid(r)] if r is not None else [])] for k, (w, r) in orch.REC.foot.items() if k in u2s}
    return {"steps": [{k: v for k, v in st.items() if k in ("sid", "kind", "uuids", "req", "requested", "cfw", "left_cfw", "right_cfw")}
                      for st in plan["steps"]], "foot": {str(k): v for k, v in sorted(foot.items())}}


def run_case(U: dict, C: dict, req: List[str], ordering: Optional[str], mode: str = "SYNC", flight: Optional[str] = None,
             probe: bool = False) -> dict:
    from mloda.user import mloda, PluginCollector, GlobalFilter, Link, JoinSpec, Index, ParallelizationMode
    if probe:
        from harness import orch
        orch.install()
        orch.REC.reset()
    fw = C["fw"]
    classes = build_universe(U, fw, U["tag"])
    _GID.clear()
    _GID.update({c: g for g, c in classes.items()})
    CUR["fw"] = fw
    # half of the cases (decided by the case itself) compute IN PLACE on pandas frames / python-dict rows, like the built-in groups:
    # a result table that aliases the object's data would then show columns computed later
    import zlib
    CUR["inplace"] = bool(zlib.crc32(json.dumps([req, ordering, mode]).encode()) & 1)
    install()
    links = None
    if C.get("links") is not None:
        links = {Link.inner(JoinSpec(classes[l[0]], Index(tuple(l[1]))), JoinSpec(classes[l[2]], Index(tuple(l[3]))))
                 for l in C["links"]}
    gf = None
    if C.get("filters") is not None:
        gf = GlobalFilter()
        for name in C["filters"]:
            gf.add_filter(name, "min", {"value": -1000})
    REC.reset()
    out: Dict[str, Any] = {"req": req, "ordering": ordering, "mode": mode, "inplace": CUR["inplace"]}
    kw: Dict[str, Any] = {}
    sink = None
    if mode != "SYNC":
        kw["parallelization_modes"] = {ParallelizationMode[mode]}
        sink = _sink()
        sink.reset()
    if mode == "MULTIPROCESSING":
        # the Flight store holds Arrow tables: the pandas / python-dict transformers must be registered (plug-in modules)
        import mloda_plugins.compute_framework.base_implementations.python_dict.python_dict_pyarrow_transformer  # noqa: F401
        import mloda_plugins.compute_framework.base_implementations.pandas.pandaspyarrowtransformer  # noqa: F401
        mp_obs.install_upload_events(table_columns)
        kw["flight_server"] = mp_obs.FlightHandle(flight) if flight else None
    mp_obs.CUR["sink"] = sink

    def call() -> Any:
        return mloda.run_all(list(req), compute_frameworks={fw_class(fw)}, links=links, global_filter=gf,
                             plugin_collector=PluginCollector.enabled_feature_groups(set(classes.values())),
                             column_ordering=ordering, **kw)
    try:
        if mode == "SYNC":
            res = call()
        else:
            def again() -> None:
                REC.reset()
                if sink is not None:
                    sink.reset()
            status, res, n_to = mp_obs.watchdog_retry(call, 40.0, again)
            out["timeouts"] = n_to
            if status == "hang":
                raise TimeoutError("HANG: run_all did not return within 40 s, twice")
            if status == "raised":
                raise res
        out["tables"] = [table_columns(t) for t in res]
        out["exc"] = None
    except Exception as e:  # noqa: BLE001
        out["tables"] = None
        msg = " ".join(str(e).split())
        out["exc"] = f"{type(e).__name__}: {msg[:120]} ... {msg[-220:]}" if len(msg) > 360 else f"{type(e).__name__}: {msg}"
    finally:
        mp_obs.CUR["sink"] = None
    out.update({"trace": list(REC.trace), "coll": REC.coll, "calls": list(REC.calls),
                "inputs": {str(k): v for k, v in REC.inputs.items()}, "filters": {str(k): v for k, v in REC.filters.items()},
                "links": REC.links, "abs_err": REC.abstraction_errors[:3]})
    if probe and mode == "SYNC":
        try:
            out["plan"] = exported_plan_and_footprint()
        except Exception as e:  # noqa: BLE001
            out["plan"] = None
            out["plan_err"] = f"{type(e).__name__}: {e}"[:200]
    if sink is not None:
        lines = sink.read()
        out["uploads"] = [l["cols"] for l in lines if l["ev"] == "upload"]
        out["child_events"] = [l["ev"] for l in lines if l["ev"] in ("child-add", "child-ident")]
        out["worker_processes"] = len({l["pid"] for l in lines if l.get("child")})
    REC.reset()
    return out


# ------------------------------------------------------------------------------------------------------------
UNIT_BASES = ["a", "ab", "b", "a~b", "m", "temp", "a~1", "m~0", "x_y", "A"]
UNIT_SUFFIXES = ["", "~0", "~1", "~mean", "~", "~0~x", "1", "~~", "b"]


def unit_cases(seed: int, n: int) -> List[dict]:
    """ComputeFramework.identify_naming_convention on random name sets with shared prefixes and ~ suffixes."""
    from uuid import uuid4
    from mloda.user import FeatureName, ParallelizationMode
    rng = random.Random(seed)
    cfw = fw_class("pandas")(mode=ParallelizationMode.SYNC, children_if_root=frozenset(), uuid=uuid4())
    out = []
    for _ in range(n):
        pool = [b + s for b in rng.sample(UNIT_BASES, rng.randrange(1, 5)) for s in rng.sample(UNIT_SUFFIXES, rng.randrange(1, 5))]
        cols = set(rng.sample(pool, rng.randrange(0, min(7, len(pool)) + 1)))
        feats_src = pool + UNIT_BASES
        feats = set(rng.sample(feats_src, rng.randrange(0, 5)))
        ordering = rng.choice([None, None, "alphabetical", "alphabetical", "request_order", "request_order", "request_order", "bogus"])
        sel = {FeatureName(f) for f in feats}
        case: Dict[str, Any] = {"iter": [f.name for f in sel], "cols": sorted(cols), "ordering": ordering}
        try:
            r = cfw.identify_naming_convention(sel, set(cols), ordering)
            case["kind"] = "set" if isinstance(r, (set, frozenset)) else "list"
            case["res"] = sorted(r) if case["kind"] == "set" else list(r)
        except ValueError:
            case["kind"], case["res"] = "err", []
        except Exception as e:  # noqa: BLE001
            case["kind"], case["res"] = "other:" + type(e).__name__, []
        out.append(case)
    return out


def name_cases(seed: int, n: int) -> List[dict]:
    """FeatureGroup.get_column_base_feature and the default set_feature_name."""
    from mloda.provider import FeatureGroup
    from mloda.user import FeatureName, Options
    rng = random.Random(seed + 1)
    out = []
    for _ in range(n):
        name = rng.choice(UNIT_BASES) + rng.choice(UNIT_SUFFIXES)
        sup = rng.sample(UNIT_BASES + ["", "a~1"], rng.randrange(0, 4))
        G = type("C03Name", (FeatureGroup,), {"feature_names_supported": classmethod(lambda cls, _s=tuple(sup): set(_s))})
        try:
            base = FeatureGroup.get_column_base_feature(name)
            new = G().set_feature_name(Options({}), FeatureName(name))
            out.append({"name": name, "sup": sorted(sup), "base": base, "new": str(new)})
        except Exception as e:  # noqa: BLE001
            out.append({"name": name, "sup": sorted(sup), "base": None, "new": type(e).__name__})
    return out


def run_job(job: dict) -> dict:
    res: Dict[str, Any] = {"hashseed": os.environ.get("PYTHONHASHSEED"), "cases": [], "unit": [], "names": []}
    if job.get("cases"):
        for req, ordering in job["cases"]:
            for mode in job.get("modes") or ["SYNC"]:
                res["cases"].append(run_case(job["universe"], job["config"], req, ordering, mode, job.get("flight"),
                                             probe=bool(job.get("modes"))))
    if job.get("unit"):
        res["unit"] = unit_cases(job["unit"]["seed"], job["unit"]["n"])
        res["names"] = name_cases(job["unit"]["seed"], job["unit"].get("n_names", 0))
    return res


if __name__ == "__main__":
    job = json.load(open(sys.argv[1]))
    json.dump(run_job(job), open(sys.argv[2], "w"))
