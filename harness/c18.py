"""C18 — link sets are validated; the applicable link follows the documented rules; index prefix rule.

Model: coq/Model/LinkSel.v, rule: coq/Spec/LinkRule.v, theorems: coq/Props/C18.v.
T2 (correspondence, evaluated by vm_compute on the same inputs):
  index    : Index.is_a_part_of_ on all pairs of tuples up to length 3 over {a,b,c} (exhaustive) + supports_index
  select   : ResolveLinks._find_matching_links on generated single-inheritance forests (depth<=3), link sets <= 3
  validate : LinkValidator.validate_links on sets of <= 3 links over 3 classes
  e2e      : mloda.prepare with a consumer of two concrete classes; links recorded by the planner vs the model
  backstop / attach / run_all (harness/c18_attach.py, Model/LinkAttach.v): links attached to features, the resolve-time
             check ResolveLinkValidator.validate_no_conflicting_join_types, where prepare refuses a contradictory set
"""
from __future__ import annotations

import itertools
import json
import logging
import random
from typing import Any, Dict, List, Optional, Sequence, Tuple

from lib import vlib
from lib.vlib import cq_list, cq_str, cq_nat, cq_bool

LEVEL = "proof"
logging.disable(logging.CRITICAL)
REQ = ["MV.Model.LinkSel", "MV.Spec.LinkRule"]
JTS = ["INNER", "LEFT", "RIGHT", "OUTER", "APPEND", "UNION"]

EXTRA = """
Definition ob_eqb (a : option bool) (b : bool) := match a with Some x => Bool.eqb x b | None => false end.
Definition chk_index (c : (list string * list string) * option bool) := ob_eqb (snd c) (is_a_part_of (fst (fst c)) (snd (fst c))).
Definition chk_supports (c : (option (list (list string)) * list string) * option (option bool)) :=
  match snd c, supports_index (fst (fst c)) (snd (fst c)) with
  | Some None, None => true | Some (Some a), Some b => Bool.eqb a b | _, _ => false end.
Fixpoint pos_of (l : link) (ls : list link) (n : nat) : nat :=
  match ls with [] => n | x :: t => if link_eqb x l then n else pos_of l t (S n) end.
Definition subset (a b : list nat) := forallb (fun x => existsb (Nat.eqb x) b) a.
Definition set_eq (a b : list nat) := subset a b && subset b a.
(* hierarchy, links, lf, rf, observed positions (None = exception) *)
Definition chk_select (c : (list (nat * list nat) * list link * nat * nat) * option (list nat)) :=
  match c with
  | ((h, ls, lf, rf), Some obs) => set_eq (map (fun l => pos_of l ls 0) (find_matching (mro_of h) ls lf rf)) obs
  | (_, None) => false
  end.
Definition chk_validate (c : list link * option bool) := ob_eqb (snd c) (validate_rejects (fst c)).
(* e2e: union of both orientations of the consumer's two parents *)
Definition chk_e2e (c : (list (nat * list nat) * list link * nat * nat) * option (list nat)) :=
  match c with
  | ((h, ls, lf, rf), Some obs) =>
      set_eq (map (fun l => pos_of l ls 0) (find_matching (mro_of h) ls lf rf ++ find_matching (mro_of h) ls rf lf)) obs
  | (_, None) => false
  end.
(* classification of a select case by the documented rule (used only to label violations, in Coq) *)
Definition has_asym (c : (list (nat * list nat) * list link * nat * nat)) :=
  match c with (h, ls, lf, rf) => existsb (asymmetric (mro_of h) lf rf) ls end.
Definition chk_noasym (c : (list (nat * list nat) * list link * nat * nat) * option (list nat)) := negb (has_asym (fst c)).
"""


def cq_index(t: Sequence[str]) -> str:
    return cq_list(cq_str(x) for x in t)


def cq_link(l: dict) -> str:
    return (f"{{| jt := {l['jt']}; lfg := {cq_nat(l['l'])}; rfg := {cq_nat(l['r'])}; lidx := {cq_index(l['li'])}; "
            f"ridx := {cq_index(l['ri'])} |}}")


# ------------------------------------------------------------------------------------------------------------
def forests(max_n: int, max_depth: int = 3) -> List[List[Optional[int]]]:
    out = []
    for n in range(1, max_n + 1):
        for parents in itertools.product(*[[None] + list(range(i)) for i in range(n)]):
            depth_ok = True
            for i in range(n):
                d, j = 1, parents[i]
                while j is not None:
                    d, j = d + 1, parents[j]
                if d > max_depth:
                    depth_ok = False
            # width <= 2
            for p in range(n):
                if sum(1 for q in parents if q == p) > 2:
                    depth_ok = False
            if depth_ok:
                out.append(list(parents))
    return out


_class_cache: Dict[Tuple, List[type]] = {}


def make_classes(parents: List[Optional[int]], tag: str) -> List[type]:
    """Real root feature-group classes with the given single-inheritance forest. Each matches only its own name."""
    key = (tuple(parents), tag)
    if key in _class_cache:
        return _class_cache[key]
    from mloda.provider import FeatureGroup, DataCreator
    from mloda_plugins.compute_framework.base_implementations.pyarrow.table import PyArrowTable
    classes: List[type] = []
    for i, p in enumerate(parents):
        base = FeatureGroup if p is None else classes[p]

        def input_data(cls: Any) -> Any:
            return DataCreator({cls.__name__})

        def calculate_feature(cls: Any, data: Any, features: Any) -> Any:
            return {cls.__name__: [1, 2], "k": [1, 2], "j": [1, 2]}

        def compute_framework_rule(cls: Any) -> Any:
            return {PyArrowTable}

        name = f"K18_{tag}_{i}"
        c = type(name, (base,), {"input_data": classmethod(input_data), "calculate_feature": classmethod(calculate_feature),
                                 "compute_framework_rule": classmethod(compute_framework_rule)})
        classes.append(c)
    _class_cache[key] = classes
    return classes


def mro_ids(classes: List[type], i: int) -> List[int]:
    return [classes.index(c) for c in classes[i].__mro__ if c in classes]


def real_link(classes: List[type], l: dict) -> Any:
    from mloda.user import Link, JoinSpec
    from mloda.core.abstract_plugins.components.link import JoinType
    return Link(JoinType[l["jt"]], JoinSpec(classes[l["l"]], tuple(l["li"])), JoinSpec(classes[l["r"]], tuple(l["ri"])))


def gen_links(rng: random.Random, n: int, k: int, jts: Sequence[str] = ("INNER", "LEFT")) -> List[dict]:
    links, seen = [], set()
    while len(links) < k:
        l = {"jt": rng.choice(jts), "l": rng.randrange(n), "r": rng.randrange(n),
             "li": [rng.choice(["k", "j"])], "ri": [rng.choice(["k", "j"])]}
        key = (l["jt"], l["l"], l["r"], tuple(l["li"]), tuple(l["ri"]))
        if key not in seen:
            seen.add(key)
            links.append(l)
    return links


def select_cases(rng: random.Random, n_cases: int, fs: List[List[Optional[int]]]) -> List[dict]:
    from mloda.core.prepare.resolve_links import ResolveLinks
    out = []
    for ci in range(n_cases):
        parents = rng.choice(fs)
        n = len(parents)
        classes = make_classes(parents, "s")
        links = gen_links(rng, n, rng.choice([1, 1, 2, 2, 3]))
        # bias: half of the cases take link classes among the ancestors of the pair, so that matches are common
        lf, rf = rng.randrange(n), rng.randrange(n)
        if rng.random() < 0.6:
            for l in links:
                l["l"] = rng.choice(mro_ids(classes, lf))
                l["r"] = rng.choice(mro_ids(classes, rf))
            seen, uniq = set(), []
            for l in links:
                key = (l["jt"], l["l"], l["r"], tuple(l["li"]), tuple(l["ri"]))
                if key not in seen:
                    seen.add(key)
                    uniq.append(l)
            links = uniq
        rl = [real_link(classes, l) for l in links]
        try:
            res = ResolveLinks(None, set(rl))._find_matching_links(classes[lf], classes[rf])  # type: ignore[arg-type]
            obs: Optional[List[int]] = sorted(rl.index(x) for x in res)
        except Exception:  # noqa: BLE001
            obs = None
        out.append({"parents": parents, "mro": [[i, mro_ids(classes, i)] for i in range(n)], "links": links,
                    "lf": lf, "rf": rf, "obs": obs})
    return out


def cq_hier(c: dict) -> str:
    return cq_list(f"({cq_nat(i)}, {cq_list(cq_nat(x) for x in m)})" for i, m in c["mro"])


def select_term(c: dict) -> str:
    obs = "None" if c["obs"] is None else f"(Some {cq_list(cq_nat(x) for x in c['obs'])})"
    return (f"(({cq_hier(c)}, {cq_list(cq_link(l) for l in c['links'])}, {cq_nat(c['lf'])}, {cq_nat(c['rf'])}), {obs})")


# ------------------------------------------------------------------------------------------------------------
def index_cases() -> List[dict]:
    from mloda.user import Index
    tuples: List[Tuple[str, ...]] = [()]
    for n in (1, 2, 3):
        tuples += list(itertools.product("abc", repeat=n))
    out = []
    for a in tuples:
        for b in tuples:
            try:
                obs: Optional[bool] = bool(Index(a).is_a_part_of_(Index(b)))
            except Exception:  # noqa: BLE001
                obs = None
            out.append({"a": list(a), "b": list(b), "obs": obs})
    return out


def supports_cases(rng: random.Random, n: int) -> List[dict]:
    from mloda.user import Index
    from mloda.provider import FeatureGroup
    out = []
    for _ in range(n):
        cols: Optional[List[List[str]]] = None if rng.random() < 0.15 else [
            [rng.choice("abc") for _ in range(rng.randrange(1, 4))] for _ in range(rng.randrange(0, 3))]
        idx = [rng.choice("abc") for _ in range(rng.randrange(1, 4))]

        def index_columns(cls: Any, _cols: Any = cols) -> Any:
            return None if _cols is None else [Index(tuple(c)) for c in _cols]

        G = type("K18_idx", (FeatureGroup,), {"index_columns": classmethod(index_columns)})
        try:
            r = G.supports_index(Index(tuple(idx)))
            obs = "Some None" if r is None else f"Some (Some {cq_bool(bool(r))})"
        except Exception:  # noqa: BLE001
            obs = "None"
        out.append({"cols": cols, "idx": idx, "obs": obs})
    return out


# ------------------------------------------------------------------------------------------------------------
def validate_cases(rng: random.Random, n_random: int, all_pairs: bool) -> List[dict]:
    from mloda.core.abstract_plugins.components.validators.link_validator import LinkValidator
    classes = make_classes([None, None, 0], "v")
    cands = [{"jt": jt, "l": a, "r": b, "li": [k], "ri": [k]} for jt in ("INNER", "LEFT", "RIGHT", "APPEND", "UNION")
             for a in range(3) for b in range(3) for k in ("k", "j")]
    sets: List[List[dict]] = [[c] for c in cands]
    if all_pairs:
        sets += [list(p) for p in itertools.combinations(cands, 2)]
    else:
        sets += [rng.sample(cands, 2) for _ in range(n_random)]
    sets += [rng.sample(cands, 3) for _ in range(n_random)]
    out = []
    for s in sets:
        rl = {real_link(classes, l) for l in s}
        try:
            LinkValidator.validate_links(rl)
            obs: Optional[bool] = False
        except ValueError:
            obs = True
        except Exception:  # noqa: BLE001
            obs = None
        out.append({"links": s, "obs": obs})
    return out


# ------------------------------------------------------------------------------------------------------------
_recorded: List[Any] = []


def _install_recorder() -> None:
    from mloda.core.prepare.resolve_links import ResolveLinks
    if getattr(ResolveLinks, "_verif_wrapped", False):
        return
    orig = ResolveLinks.resolve_links

    def wrapped(self: Any) -> Any:
        r = orig(self)
        _recorded.append({k[0].uuid for k in self.link_trekker.data})
        return r

    ResolveLinks.resolve_links = wrapped  # type: ignore[method-assign]
    ResolveLinks._verif_wrapped = True  # type: ignore[attr-defined]


def e2e_cases(rng: random.Random, n_cases: int, fs: List[List[Optional[int]]]) -> List[dict]:
    from mloda.user import mloda, Feature, PluginCollector
    from mloda.provider import FeatureGroup
    from mloda_plugins.compute_framework.base_implementations.pyarrow.table import PyArrowTable
    _install_recorder()
    out = []
    fs = [f for f in fs if len(f) >= 2]
    for ci in range(n_cases):
        parents = rng.choice(fs)
        n = len(parents)
        classes = make_classes(parents, "s")
        lf = rng.randrange(n)
        rf = rng.choice([x for x in range(n) if x != lf])
        links = gen_links(rng, n, rng.choice([1, 2, 3]), jts=("INNER",))
        for l in links:
            a, b = (lf, rf) if rng.random() < 0.7 else (rf, lf)
            l["l"] = rng.choice(mro_ids(classes, a))
            l["r"] = rng.choice(mro_ids(classes, b))
        seen, uniq = set(), []
        for l in links:
            key = (l["l"], l["r"], tuple(l["li"]), tuple(l["ri"]))
            if key not in seen:
                seen.add(key)
                uniq.append(l)
        links = uniq
        rl = [real_link(classes, l) for l in links]
        names = (classes[lf].__name__, classes[rf].__name__)

        def input_features(self: Any, options: Any, feature_name: Any, _n: Any = names) -> Any:
            return {Feature(_n[0]), Feature(_n[1])}

        def calculate_feature(cls: Any, data: Any, features: Any) -> Any:
            return {"K18Cons": [0]}

        def compute_framework_rule(cls: Any) -> Any:
            return {PyArrowTable}

        Cons = type("K18Cons", (FeatureGroup,), {"input_features": input_features,
                                                 "calculate_feature": classmethod(calculate_feature),
                                                 "compute_framework_rule": classmethod(compute_framework_rule)})
        _recorded.clear()
        try:
            mloda.prepare([Feature("K18Cons")], compute_frameworks={PyArrowTable}, links=set(rl),
                          plugin_collector=PluginCollector.enabled_feature_groups(set(classes) | {Cons}))
            uu = _recorded[-1] if _recorded else None
            obs: Any = None if uu is None else sorted(i for i, x in enumerate(rl) if x.uuid in uu)
            exc = None
        except Exception as e:  # noqa: BLE001
            obs, exc = None, f"{type(e).__name__}: {str(e)[:100]}"
        out.append({"parents": parents, "mro": [[i, mro_ids(classes, i)] for i in range(n)], "links": links,
                    "lf": lf, "rf": rf, "obs": obs, "exc": exc})
    return out


# ------------------------------------------------------------------------------------------------------------
def coq_flags(name: str, fn: str, terms: List[str], ty: str) -> List[int]:
    """indices where boolean Coq function fn is FALSE (run_cases returns those)."""
    bad, _ = vlib.run_cases("C18", name, REQ, fn, terms, extra_defs=EXTRA, case_type=ty)
    return bad


SEL_TY = "(list (nat * list nat) * list link * nat * nat) * option (list nat)"


def run(rep: vlib.Reporter, tier: str, seed: int) -> None:
    rng = random.Random(seed * 7919 + 18)
    pr = vlib.build_props("C18")
    rep.proof(pr)
    rep.coverage["trusted_base"] += [
        "hand-written model Model/LinkSel.v of _find_matching_links/_select_most_specific_links/_inheritance_distance, "
        "Link.matches_exact/matches_polymorphic/__eq__, LinkValidator.validate_links, Index.is_a_part_of_, "
        "FeatureGroup.supports_index; tied by correspondence (T2) on the inputs listed under coverage",
        "Python issubclass / __mro__ for single-inheritance class forests = list of ancestors (generated universes only)",
        "class names are unique in generated universes (Link.__eq__ compares names)"]
    found = False
    from harness import srctie      # source-text tie (Props/SrcTie.v): definitions regenerated from the source text = the models
    found = (not srctie.check(rep)) or found
    big = tier == "thorough"

    ic = index_cases()
    bad, info = vlib.run_cases("C18", "index", REQ, "chk_index",
                               [f"(({cq_index(c['a'])}, {cq_index(c['b'])}), {'None' if c['obs'] is None else 'Some ' + cq_bool(c['obs'])})" for c in ic],
                               extra_defs=EXTRA, case_type="(list string * list string) * option bool", shard=400)
    rep.count(len(ic))
    rep.add("index", {**info, "cases": len(ic), "disagreements": len(bad), "exhaustive": True,
                      "true_results": sum(1 for c in ic if c["obs"])})
    for c in ic:
        if c["a"] and c["b"]:
            rep.nontrivial(("i", c["a"], c["b"]))
    for i in bad[:5]:
        c = ic[i]
        pref = c["b"][:len(c["a"])] == c["a"]
        rep.finding(f"index:{c['a']}:{c['b']}:{c['obs']}",
                    f"Index{tuple(c['a'])}.is_a_part_of_(Index{tuple(c['b'])}) = {c['obs']} but prefix relation is {pref}",
                    {"kind": "index", **c})
        found = True

    sc = supports_cases(rng, 2000 if big else 300)
    def sup_term(c: dict) -> str:
        cols = "None" if c["cols"] is None else f"(Some {cq_list(cq_index(x) for x in c['cols'])})"
        return f"(({cols}, {cq_index(c['idx'])}), {c['obs']})"
    bad, info = vlib.run_cases("C18", "supports", REQ, "chk_supports", [sup_term(c) for c in sc], extra_defs=EXTRA,
                               case_type="(option (list (list string)) * list string) * option (option bool)")
    rep.count(len(sc))
    rep.add("supports_index", {**info, "cases": len(sc), "disagreements": len(bad)})
    for i in bad[:5]:
        rep.finding(f"supports:{sc[i]['cols']}:{sc[i]['idx']}:{sc[i]['obs']}", f"supports_index disagrees with the prefix rule on {sc[i]}",
                    {"kind": "supports", **sc[i]})
        found = True

    fs = forests(5)
    sel = select_cases(rng, 40000 if big else 3000, fs)
    terms = [select_term(c) for c in sel]
    bad = coq_flags("select", "chk_select", terms, SEL_TY)
    rep.count(len(sel))
    nonempty = sum(1 for c in sel if c["obs"])
    multi = sum(1 for c in sel if c["obs"] and len(c["obs"]) > 1)
    for c in sel:
        if c["obs"]:
            rep.nontrivial(("s", c["parents"], c["links"], c["lf"], c["rf"]))
    rep.add("select", {"cases": len(sel), "forests": len(fs), "nonempty_results": nonempty, "multi_link_results": multi,
                       "exceptions": sum(1 for c in sel if c["obs"] is None), "disagreements": len(bad)})
    for i in bad[:5]:
        c = sel[i]
        rep.finding(f"select:{json.dumps([c['parents'], c['links'], c['lf'], c['rf']])}",
                    f"_find_matching_links returned links {c['obs']} which differs from the model of the selection rule",
                    {"kind": "select", **c})
        found = True
    # known-finding domain: asymmetric acceptance — count how many observed results used it (classified in Coq)
    asym_flags = vlib.run_cases("C18", "asym", REQ, "chk_noasym", terms, extra_defs=EXTRA,
                                case_type=SEL_TY)[0]
    used = [i for i in asym_flags if sel[i]["obs"]]
    rep.add("asymmetric_domain_cases", {"with_asymmetric_link": len(asym_flags), "nonempty_result": len(used)})
    if used:
        rep.finding("C18-asymmetric-polymorphic-match", "asymmetric polymorphic match accepted", {"kind": "select", **sel[used[0]]})

    vc = validate_cases(rng, 4000 if big else 700, all_pairs=big)
    bad, info = vlib.run_cases("C18", "validate", REQ, "chk_validate",
                               [f"({cq_list(cq_link(l) for l in c['links'])}, {'None' if c['obs'] is None else 'Some ' + cq_bool(c['obs'])})" for c in vc],
                               extra_defs=EXTRA, case_type="list link * option bool")
    rep.count(len(vc))
    rep.add("validate", {**info, "cases": len(vc), "rejected": sum(1 for c in vc if c["obs"]), "disagreements": len(bad)})
    for c in vc:
        if len(c["links"]) > 1:
            rep.nontrivial(("v", c["links"]))
    for i in bad[:5]:
        c = vc[i]
        rep.finding(f"validate:{json.dumps(c['links'])}:{c['obs']}",
                    f"validate_links verdict rejected={c['obs']} differs from the three documented contradiction rules",
                    {"kind": "validate", **c})
        found = True

    ec = e2e_cases(rng, 1500 if big else 250, fs)
    ok_cases = [c for c in ec if c["exc"] is None]
    bad = coq_flags("e2e", "chk_e2e", [select_term(c) for c in ok_cases], SEL_TY)
    rep.count(len(ec))
    rep.add("e2e", {"cases": len(ec), "prepared": len(ok_cases), "with_links_recorded": sum(1 for c in ok_cases if c["obs"]),
                    "exceptions": sorted({c["exc"] for c in ec if c["exc"]})[:5], "disagreements": len(bad)})
    for c in ok_cases:
        if c["obs"]:
            rep.nontrivial(("e", c["parents"], c["links"], c["lf"], c["rf"]))
    for i in bad[:5]:
        c = ok_cases[i]
        rep.finding(f"e2e:{json.dumps([c['parents'], c['links'], c['lf'], c['rf']])}",
                    f"links recorded by the planner for the consumer ({c['obs']}) differ from the modelled rule",
                    {"kind": "e2e", **c})
        found = True
    # prepare-time verdict (LinkValidator called from Engine.__init__) vs the model
    def is_rej(c: dict) -> Optional[bool]:
        if c["exc"] is None:
            return False
        # LinkValidator runs first in Engine.__init__: any other exception comes from later planning stages
        return c["exc"].startswith("ValueError: Link ")
    bad, info = vlib.run_cases("C18", "e2e_validate", REQ, "chk_validate",
                               [f"({cq_list(cq_link(l) for l in c['links'])}, {'None' if is_rej(c) is None else 'Some ' + cq_bool(bool(is_rej(c)))})" for c in ec],
                               extra_defs=EXTRA, case_type="list link * option bool")
    rep.coverage["e2e"]["prepare_rejections"] = sum(1 for c in ec if is_rej(c))
    rep.coverage["e2e"]["verdict_disagreements"] = len(bad)
    for i in bad[:5]:
        c = ec[i]
        rep.finding(f"e2e-validate:{json.dumps(c['links'])}:{c['exc']}",
                    f"prepare() outcome {c['exc']!r} for link set differs from the documented validation rules",
                    {"kind": "e2e", **c})
        found = True
    # a prepare that raises although the link set passes validation is unexpected here (inner links only)
    for c in [c for c in ec if c["exc"]][:3]:
        rep.notes.append(f"e2e prepare raised: {c['exc']}")

    # links attached to features + the resolve-time back-stop (Model/LinkAttach.v)
    from harness import c18_attach
    found = c18_attach.run(rep, tier, rng, fs) or found

    rep.add("rule", "index tuples exhaustive up to length 3 over 3 letters; selection: PRNG cases over all single-inheritance "
                    "forests with <=5 classes, depth<=3, width<=2, <=3 links biased towards ancestors of the pair; validation: "
                    "all singletons + pairs/triples over 90 candidate links on 3 classes; e2e: prepare() of a consumer of two "
                    "classes, links recorded in the planner's link trekker; back-stop: every insertion order of <=3 keys; "
                    "attach: every ordered pair of different links between two requested classes x 3 ways of arrival "
                    "(exact and polymorphic) + PRNG requests (3 shapes, <=3 links, API / attached, <=5 classes, 2 frameworks). "
                    "non-trivial = non-empty selection / >1 link / non-empty tuples / a request with an attached link where a "
                    "link is used or prepare raises")
    for c in (ic[77], sel[0], vc[100], ec[0]):
        rep.sample(c)
    if not pr.ok and not found:
        rep.finding("proof-broken", "Props/C18.v no longer checks",
                    {"failed_files": pr.failed_files, "forbidden": pr.forbidden, "log_tail": pr.log[-3000:]}, found_input=False)


def replay(path: str) -> int:
    r = json.load(open(path))["replay"]
    print(json.dumps(r, indent=1))
    if r.get("kind") == "srctie":
        from harness import srctie
        srctie.replay(r)
    if r.get("kind") == "select":
        from mloda.core.prepare.resolve_links import ResolveLinks
        classes = make_classes(r["parents"], "s")
        rl = [real_link(classes, l) for l in r["links"]]
        res = ResolveLinks(None, set(rl))._find_matching_links(classes[r["lf"]], classes[r["rf"]])  # type: ignore[arg-type]
        print("now:", sorted(rl.index(x) for x in res), "recorded:", r["obs"])
    if r.get("kind") in ("attach", "backstop"):
        from harness import c18_attach
        c18_attach.replay(r)
    if r.get("kind") == "index":
        from mloda.user import Index
        print("now:", Index(tuple(r["a"])).is_a_part_of_(Index(tuple(r["b"]))))
    return 0
