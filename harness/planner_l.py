"""Correspondence between the real planner and its Coq model for requests WITH LINKS (coq/Model/PlannerL.v).

Fragment (in_fragment): root groups with a declared compute framework, derived consumer groups with a declared compute
framework, Links between different classes, no index columns, no global filter, no declared types, default options.  One
or several compute frameworks.  For each spec (harness/universe.py format) the REAL mloda.prepare is run and observed
WITHOUT source hooks (class-level wrappers installed by this process only):
    engine.feature_link_parents, graph.queue / parent_to_children_mapping            -> the model's input graph
    list(resolver.links), list(p2c[child]), list(step.get_uuids()), ...              -> the order oracles (Python set orders)
    link_trekker.data after resolve_links, the link queue (add_links_to_queue), the planned queue
    planned queue / link_trekker.{data, data_ordered, order} / compute_frameworks after ResolveComputeFrameworks.links
    the execution plan: FeatureGroupSteps, JoinSteps (left/right frameworks and uuids, required uuids), TransformFrameworkSteps
and compared inside Coq (vm_compute, vlib.run_cases) stage by stage with the model evaluated UNDER THE OBSERVED ORDERS
(ord_obs): chk_graph_L, chk_data0, chk_lq, chk_rcf, chk_plan_L, chk_outcome_L.  Exact agreement is expected, defects included:
what prepare raised is part of the comparison (lc_outcome = the model's e_* code).

Uuids are renamed canonically: features 2*name_index (+1 for the requested copy) as in planner_a; the i-th Link of the spec
gets LINK_BASE + 4*i, its JoinStep +1, the TransformFrameworkStep made for it +2.

check_plans(specs, rep_prefix, run_accepted=0, hash_seeds=()) -> disagreements; LAST_INFO has counters.
classify(specs) -> per request the defect domains decided IN COQ (Props/PlannerL.v predicates).
`python3 -m harness.planner_l [n] [seed]` runs the self test; `python3 -m harness.planner_l --kf [n] [seed]` compares the Coq
domains with harness/c05.kf_domain.
"""
from __future__ import annotations

import copy as _copy
import json
import logging
import os
import random
import subprocess
import sys
from typing import Any, Dict, List, Optional, Tuple

from lib import vlib
from lib.vlib import cq_bool, cq_list, cq_nat

REQ = ["MV.Model.Orch", "MV.Model.OrchCheck", "MV.Model.PlannerA", "MV.Model.LinkSel", "MV.Model.PlannerL"]
STAGES = ["chk_graph_L", "chk_data0", "chk_lq", "chk_rcf", "chk_plan_L", "chk_outcome_L"]
LINK_BASE = 400
CF = ["PyArrowTable", "PandasDataFrame", "PythonDictFramework"]
JTS = ["INNER", "LEFT", "RIGHT", "OUTER", "APPEND", "UNION"]
LAST_INFO: Dict[str, Any] = {}
CAP: Dict[str, Any] = {}
_installed = [False]

E = {"links": 10, "conflict": 11, "nocfw": 12, "nochildren": 13, "keyerror": 14, "right": 15, "ambiguous": 16,
     "appendunion": 17, "internal": 18, "outside": 19, "incomplete": 1, "cycle": 2, "other": 99}
E_NAME = {v: k for k, v in E.items()}
E_NAME[0] = "accepted"


# ------------------------------------------------------------------------------------------------------------
# fragment and generators
# ------------------------------------------------------------------------------------------------------------

def in_fragment(spec: Dict[str, Any]) -> bool:
    if not spec.get("links") or spec.get("api_frameworks"):
        return False
    for g in spec["groups"]:
        if g["kind"] not in ("root", "derived") or g.get("index") or not g.get("cfw") or g.get("cols_by_opt") or g.get("cfws"):
            return False       # cfws (a group admitting several frameworks): Model/PlannerLM.v, harness/c05_both.py
        if g["kind"] == "derived":
            for d in g["features"].values():
                if d.get("opt") or d.get("input_opt"):
                    return False
    for r in spec["request"]:
        if not isinstance(r, str) and (r.get("opt") or r.get("type")):
            return False
    for l in spec["links"]:
        if l["l"] == l["r"]:
            return False
    keys = {c for l in spec["links"] for c in l["li"] + l["ri"]}
    names = [n for g in spec["groups"] for n in (g["cols"] if g["kind"] == "root" else g["features"]) if n not in keys]
    used = {i for g in spec["groups"] if g["kind"] == "derived" for d in g["features"].values() for i in d["inputs"]}
    used |= {r if isinstance(r, str) else r["name"] for r in spec["request"]}
    return len(names) == len(set(names)) and not (used & keys)


def _root(i: int, cfw: str, ncols: int = 1, rows: int = 3) -> Dict[str, Any]:
    cols: Dict[str, List[int]] = {f"v{i}": [10 * i + r for r in range(rows)]}
    for j in range(1, ncols):
        cols[f"w{i}_{j}"] = [100 * i + j + r for r in range(rows)]
    cols["k"] = list(range(1, rows + 1))
    return {"name": f"R{i}", "kind": "root", "cfw": cfw, "cols": cols}


def _feat(ins: List[str]) -> Dict[str, Any]:
    return {"inputs": list(ins), "c0": 0, "coefs": [1] * len(ins)}


def spec_two(jt: str, orient: str = "AB", ca: str = CF[0], cb: str = CF[0], cc: Optional[str] = None, shape: str = "f1") -> Dict[str, Any]:
    """two roots R0 (on ca), R1 (on cb), one Link (orient AB: Link(R0, R1), BA: Link(R1, R0)), consumer group D1 on cc.
    shape: f1 = one consumer feature; chain = f2 <- f1 requested; both = f1 and f2 <- f1 requested; two = two unrelated
    consumer features over both roots; wide = R0 contributes two columns (a two-feature root step)."""
    cc = cc or ca
    l = {"jt": jt, "l": "R0", "r": "R1", "li": ["k"], "ri": ["k"]} if orient == "AB" else {"jt": jt, "l": "R1", "r": "R0", "li": ["k"], "ri": ["k"]}
    r0 = _root(0, ca, 2 if shape == "wide" else 1)
    feats: Dict[str, Any] = {"f1": _feat(["v0", "v1"] + (["w0_1"] if shape == "wide" else []))}
    req = ["f1"]
    if shape in ("chain", "both"):
        feats["f2"] = _feat(["f1"])
        req = ["f2"] if shape == "chain" else ["f1", "f2"]
    if shape == "two":
        feats["f2"] = _feat(["v1", "v0"])
        req = ["f1", "f2"]
    return {"groups": [r0, _root(1, cb), {"name": "D1", "kind": "derived", "cfw": cc, "features": feats}],
            "request": req, "links": [l]}


def all_two_root_specs() -> List[Dict[str, Any]]:
    """every join type x orientation x (one framework | two frameworks, consumer on the left / right root's) x shape"""
    out = []
    for jt in JTS:
        for orient in ("AB", "BA"):
            for ca, cb, cc in ((CF[0], CF[0], CF[0]), (CF[0], CF[1], CF[0]), (CF[0], CF[1], CF[1]), (CF[1], CF[0], CF[1])):
                for shape in ("f1", "chain", "both", "two", "wide"):
                    out.append(spec_two(jt, orient, ca, cb, cc, shape))
    return out


def gen_tree(rng: random.Random, n: Optional[int] = None, single: bool = True, jts: Tuple[str, ...] = ("INNER", "LEFT", "OUTER"),
             shape: Optional[str] = None) -> Dict[str, Any]:
    """n roots, a tree of n-1 Links (chain / star / random tree, random orientation and join type), consumer group D1 over one
    column of every root.  single: all on one framework, else a framework per root and the consumer on one of them."""
    n = n or rng.randrange(2, 5)
    cfws = [CF[0]] * n if single else [rng.choice(CF[:2]) for _ in range(n)]
    kind = shape or rng.choice(["chain", "star", "tree"])
    links = []
    for i in range(1, n):
        a = i - 1 if kind == "chain" else 0 if kind == "star" else rng.randrange(0, i)
        l, r = (a, i) if rng.random() < 0.6 else (i, a)
        links.append({"jt": rng.choice(jts), "l": f"R{l}", "r": f"R{r}", "li": ["k"], "ri": ["k"]})
    wide = rng.random() < 0.25
    roots = [_root(i, cfws[i], 2 if (wide and i == 0) else 1) for i in range(n)]
    ins = [f"v{i}" for i in range(n)] + (["w0_1"] if wide else [])
    rng.shuffle(ins)
    feats: Dict[str, Any] = {"f1": _feat(ins)}
    req = ["f1"]
    r = rng.random()
    if r < 0.2:
        feats["f2"] = _feat(["f1"])
        req = ["f2"]
    elif r < 0.35 and n >= 3:
        feats["f2"] = _feat(rng.sample([f"v{i}" for i in range(n)], 2))      # a second consumer over a sub-set of the roots
        req = ["f1", "f2"]
    elif r < 0.42:
        feats["f2"] = _feat(["f1", "v0"])
        req = ["f2"]
    rng.shuffle(links)
    return {"groups": roots + [{"name": "D1", "kind": "derived", "cfw": rng.choice(cfws), "features": feats}],
            "request": req, "links": links}


def gen_partial(rng: random.Random) -> Dict[str, Any]:
    """3-4 roots on one framework, consumers over SUB-SETS of the roots (a Link may have several children or none), a second
    consumer group, links that nobody needs."""
    n = rng.randrange(3, 5)
    roots = [_root(i, CF[0]) for i in range(n)]
    links = []
    for i in range(1, n):
        a = rng.randrange(0, i)
        l, r = (a, i) if rng.random() < 0.6 else (i, a)
        links.append({"jt": rng.choice(["INNER", "LEFT", "OUTER"]), "l": f"R{l}", "r": f"R{r}", "li": ["k"], "ri": ["k"]})
    vs = [f"v{i}" for i in range(n)]
    f1 = rng.sample(vs, rng.randrange(2, n + 1))
    f2 = rng.sample(vs, rng.randrange(1, n + 1))
    groups = roots + [{"name": "D1", "kind": "derived", "cfw": CF[0], "features": {"f1": _feat(f1)}},
                      {"name": "D2", "kind": "derived", "cfw": CF[0], "features": {"f2": _feat(f2)}}]
    req = ["f1", "f2"]
    if rng.random() < 0.3:
        groups[-1]["features"]["f3"] = _feat(["f1", "f2"])
        req = ["f3"]
    return {"groups": groups, "request": req, "links": links}


def spec_diamond_consumer() -> Dict[str, Any]:
    """f2 <- f1, f1b; both over both roots: reduce_children_to_one_level removes f2 twice (KeyError)."""
    s = spec_two("INNER")
    s["groups"][2]["features"] = {"f1": _feat(["v0", "v1"]), "f1b": _feat(["v0", "v1"]), "f2": _feat(["f1", "f1b"])}
    s["request"] = ["f2"]
    return s


def spec_intermediate_consumer() -> Dict[str, Any]:
    """D1 = {g0 <- v0, f1 <- g0, v1}: both steps of D1 require the link, the join requires g0 (cycle)."""
    s = spec_two("INNER")
    s["groups"][2]["features"] = {"g0": _feat(["v0"]), "f1": _feat(["g0", "v1"])}
    s["request"] = ["f1"]
    return s


# ------------------------------------------------------------------------------------------------------------
# observation of one real preparation
# ------------------------------------------------------------------------------------------------------------

def install_capture() -> None:
    from harness.planner_a import install_capture as _a
    _a()
    if _installed[0]:
        return
    _installed[0] = True
    from mloda.core.prepare.resolve_links import ResolveLinks
    from mloda.core.prepare.resolve_graph import ResolveGraph
    from mloda.core.prepare.resolve_compute_frameworks import ResolveComputeFrameworks
    from mloda.core.prepare.execution_plan import ExecutionPlan
    from mloda.core.core.step.feature_group_step import FeatureGroupStep

    def snap(d: Any) -> List[Tuple[Any, List[Any]]]:
        return [(k, list(v)) for k, v in d.items()]

    o2 = ResolveLinks.add_links_to_queue

    def add_links_to_queue(self: Any) -> Any:
        lt = self.link_trekker
        CAP["graph"] = self.graph
        CAP["links_iter"] = list(self.links) if self.links else []
        CAP["data0"] = snap(lt.data)
        r = o2(self)
        CAP["lq"] = list(r)
        return r
    ResolveLinks.add_links_to_queue = add_links_to_queue  # type: ignore[method-assign]
    o3 = ResolveGraph.resolve_links

    def resolve_links(self: Any) -> Any:
        r = o3(self)
        CAP["pq0"] = [(e[0], list(e[1])) if isinstance(e[1], set) else e for e in r]
        CAP["first"] = {cls: next(iter(fs)) for cls, fs in self.nodes_per_feature_group.items() if fs}
        return r
    ResolveGraph.resolve_links = resolve_links  # type: ignore[method-assign]
    o4 = ResolveComputeFrameworks.links

    def links(self: Any, pq: Any, lt: Any) -> Any:
        r = o4(self, pq, lt)
        CAP["pq1"] = [(e[0], list(e[1])) if isinstance(e[1], set) else e for e in r]
        CAP["data1"] = snap(lt.data)
        CAP["dor1"] = snap(lt.data_ordered)
        CAP["order1"] = snap(lt.order)
        CAP["trekker"] = lt
        return r
    ResolveComputeFrameworks.links = links  # type: ignore[method-assign]
    o4b = ResolveComputeFrameworks.order_queue_by_trekker_order

    def order_queue_by_trekker_order(self: Any, planned_queue: Any, link_trekker: Any) -> Any:
        CAP["issue_orders"] = _replay_issue_orders(planned_queue, link_trekker.order)
        return o4b(self, planned_queue, link_trekker)
    ResolveComputeFrameworks.order_queue_by_trekker_order = order_queue_by_trekker_order  # type: ignore[method-assign]
    o5 = ExecutionPlan.add_feature_group_step

    def add_feature_group_step(self: Any, *a: Any, **kw: Any) -> Any:
        r = o5(self, *a, **kw)
        CAP["any0"] = {id(s): s.features.any_uuid for s in r if isinstance(s, FeatureGroupStep)}
        return r
    ExecutionPlan.add_feature_group_step = add_feature_group_step  # type: ignore[method-assign]
    o6 = ExecutionPlan.add_tfs

    def add_tfs(self: Any, execution_plan: Any, graph: Any) -> Any:
        CAP["fw_plan"] = list(execution_plan)
        CAP["suu"] = [list(s.get_uuids()) if isinstance(s, FeatureGroupStep) else None for s in execution_plan]
        r = o6(self, execution_plan, graph)
        CAP["final_plan"] = list(r)
        return r
    ExecutionPlan.add_tfs = add_tfs  # type: ignore[method-assign]


def classify_exception(e: BaseException) -> int:
    msg = str(e)
    if isinstance(e, KeyError):
        return E["keyerror"]
    if isinstance(e, ValueError):
        for pat, code in (("Execution plan is incomplete", "incomplete"), ("wait for each other in a cycle", "cycle"),
                          ("have at least two different defined joins", "links"), ("have different join types", "links"),
                          ("multiple right joins", "links"), ("No new compute frameworks", "nocfw"), ("has no matching uuids", "nochildren"),
                          ("more than one solution for the join", "ambiguous"), ("Are the indexes for the append or union set correctly", "appendunion"),
                          ("Link not found in data", "internal"), ("different lengths", "internal"), ("Link not found in data ordered", "internal"),
                          ("Feature set collection per uuid is None", "internal")):
            if pat in msg:
                return E[code]
        return E["other"]
    if type(e) is Exception:
        if "Right joins are not supported" in msg:
            return E["right"]
        if "Conflicting join types" in msg:
            return E["conflict"]
    return E["other"]


class Tables:
    def __init__(self, spec: Dict[str, Any]) -> None:
        names = sorted({n for g in spec["groups"] for n in (g["cols"] if g["kind"] == "root" else g["features"])})
        self.name_idx = {n: i for i, n in enumerate(names)}
        self.group_idx = {g["name"]: i + 1 for i, g in enumerate(spec["groups"])}
        cf = sorted({g["cfw"] for g in spec["groups"]} | {c for g in spec["groups"] for c in (g.get("cfws") or [])})
        self.cfw_idx = {c: i + 1 for i, c in enumerate(cf)}
        self.links = [(LINK_BASE + 4 * i, l["jt"], self.group_idx[l["l"]], self.group_idx[l["r"]], list(l["li"]), list(l["ri"]))
                      for i, l in enumerate(spec["links"])]


def _replay_kids(data_set: Any, graph: Any) -> List[Any]:
    """the iteration order of children_uuids in ExecutionPlan.run_link after reduce_children_to_one_level, obtained by
    repeating the same set operations on the same uuid objects (None: the real code raises KeyError)"""
    s: set = set()
    s.update(data_set)
    new = _copy.copy(s)
    try:
        for child in s:
            for coc in graph.adjacency_list[child]:
                if coc in s:
                    new.remove(coc)
    except KeyError:
        return []
    return list(new)


def _replay_issue_orders(planned_queue: Any, orders: Any) -> Dict[Any, List[Any]]:
    """the iteration orders of the sets issue_collector[k] of ResolveComputeFrameworks.order_queue_by_trekker_order, obtained
    by repeating the same set insertions on the same tuple objects (a wrong replica shows up as a disagreement)"""
    from collections import defaultdict
    from mloda.core.abstract_plugins.components.link import Link
    added: set = set()
    issue: Dict[Any, set] = defaultdict(set)
    for p in planned_queue:
        if isinstance(p, tuple) and isinstance(p[0], Link):
            uuid = p[0].uuid
            blocked = False
            for k, v in orders.items():
                if uuid in v and k not in added:
                    issue[k].add(p)
                    blocked = True
                    break
            if blocked:
                continue
            added.add(uuid)
            for k, deps in issue.items():
                if uuid == k:
                    for dep in deps:
                        du = dep[0].uuid
                        if not any(du in v and k2 not in added for k2, v in orders.items()):
                            added.add(du)
    return {k: [d[0].uuid for d in v] for k, v in issue.items()}


def observe(spec: Dict[str, Any]) -> Dict[str, Any]:
    """Run the real prepare; return a JSON-serialisable observation in canonical ids, or {"error": ...}."""
    from harness.universe import Universe
    from harness.planner_a import CAP as CAPA
    install_capture()
    CAP.clear()
    CAPA.clear()
    t = Tables(spec)
    uni = Universe(spec)
    try:
        outcome = 0
        exc = None
        try:
            uni.prepare()
        except Exception as e:  # noqa: BLE001
            outcome = classify_exception(e)
            exc = f"{type(e).__name__}: {str(e)[:160]}"
        eng = CAPA.get("engine")
        if eng is None:
            if outcome == E["links"]:            # LinkValidator.validate_links raises in Engine.__init__
                return {"stage": 0, "outcome": outcome, "exc": exc, "g": None}
            return {"error": f"engine not observed ({exc})"}
        if "data0" not in CAP:
            # raised before resolve_links finished (LinkValidator.validate_links in Engine.__init__ / conflicting join types)
            return {"stage": 0, "outcome": outcome, "exc": exc, "g": None}
        return _canon(spec, t, uni, eng, outcome, exc)
    finally:
        uni.dispose()


def _canon(spec: Dict[str, Any], t: Tables, uni: Any, eng: Any, outcome: int, exc: Optional[str]) -> Dict[str, Any]:
    from mloda.core.core.step.feature_group_step import FeatureGroupStep
    from mloda.core.core.step.join_step import JoinStep
    from mloda.core.core.step.transform_frame_work_step import TransformFrameworkStep
    graph = CAP["graph"]
    nodes = graph.get_nodes()
    ren: Dict[Any, int] = {}
    for u in list(eng.feature_link_parents.keys()):
        f = nodes[u].feature
        ren[u] = 2 * t.name_idx[f.get_name()] + (1 if f.child_options is None else 0)
    if len(set(ren.values())) != len(ren):
        return {"error": "two features of the graph have the same (name, requested-copy) identity"}
    # links: identify the Link objects of the engine with the links of the spec
    lren: Dict[Any, int] = {}
    for l in CAP["links_iter"]:
        key = (l.jointype.name, t.group_idx[uni.group_display(l.left_feature_group)], t.group_idx[uni.group_display(l.right_feature_group)],
               list(l.left_index.index), list(l.right_index.index))
        cands = [x[0] for x in t.links if (x[1], x[2], x[3], x[4], x[5]) == key]
        if not cands:
            return {"error": f"link {key} of the engine is not a link of the spec"}
        lren[l.uuid] = cands[0]
        ren[l.uuid] = cands[0]

    def cf(c: Any) -> int:
        return t.cfw_idx[c.__name__]

    def key(k: Any) -> List[int]:
        return [lren[k[0].uuid], cf(k[1]), cf(k[2])]

    def tdata(d: Any) -> List[Any]:
        return [[key(k), [ren[u] for u in v]] for k, v in d]

    g = []
    for u, parents in eng.feature_link_parents.items():
        np_ = nodes[u]
        g.append([ren[u], t.group_idx[uni.group_display(np_.feature_group_class)], [ren[p] for p in parents],
                  bool(np_.feature.initial_requested_data), t.cfw_idx[_declared_cfw(spec, uni.group_display(np_.feature_group_class))]])
    o: Dict[str, Any] = {"g": g, "outcome": outcome, "exc": exc, "stage": 1,
                         "links": [list(x) for x in t.links],
                         "used_links": sorted(lren.values())}
    tab: List[Tuple[int, List[int]]] = [(10, [lren[l.uuid] for l in CAP["links_iter"]])]
    for c, ps in graph.parent_to_children_mapping.items():
        if ps and c in ren:
            tab.append((16 + 8 * ren[c], [ren[p] for p in ps]))
    o["data0"] = tdata(CAP["data0"])
    o["lq"] = [key(x) if isinstance(x, tuple) else ren[x] for x in CAP["lq"]]
    o["queue"] = [ren[u] for u in graph.queue]

    def pq(q: Any) -> List[Any]:
        return [["L"] + key(e) if not isinstance(e[0], type) else ["G", t.group_idx[uni.group_display(e[0])], [ren[f.uuid] for f in e[1]]] for e in q]
    if "pq0" in CAP:
        o["pq0"] = pq(CAP["pq0"])
        for cls, f in CAP.get("first", {}).items():
            grp = t.group_idx[uni.group_display(cls)]
            ms = [ren[u] for u in graph.queue if nodes[u].feature_group_class is cls]
            first = ren[f.uuid]
            tab.append((19 + 8 * grp, [first] + [m for m in dict.fromkeys(ms) if m != first]))
    if "pq1" in CAP:
        o["stage"] = 2
        o["pq1"] = pq(CAP["pq1"])
        o["data1"] = tdata(CAP["data1"])
        o["dor1"] = tdata(CAP["dor1"])
        o["order1"] = [[lren[k], [lren[u] for u in v]] for k, v in CAP["order1"]]
        cm = []
        for u in eng.feature_link_parents:
            f = nodes[u].feature
            cfs = list(f.compute_frameworks)
            cm.append([ren[u], [cf(c) for c in cfs]])
            if len(cfs) > 1:
                tab.append((20 + 8 * ren[u], [cf(c) for c in cfs]))
        o["cm"] = cm
        for k, deps in CAP.get("issue_orders", {}).items():
            if len(deps) > 1:
                tab.append((21 + 8 * lren[k], [lren[u] for u in deps]))
        # children_uuids of every trekker key that is a link of the queue
        lt = CAP["trekker"]
        for e in CAP["pq1"]:
            if not isinstance(e[0], type):
                k = e
                ds = lt.data.get(k) if k in lt.data else None
                if not ds:
                    k2 = (k[0], k[2], k[1])
                    ds = lt.data.get(k2) if k2 in lt.data else None
                if ds:
                    kids = _replay_kids(ds, graph)
                    if kids:
                        tab.append((17 + 8 * lren[k[0].uuid], [ren[u] for u in kids]))
    plan_steps = CAP.get("final_plan")
    if plan_steps is None:
        from harness.planner_a import CAP as CAPA
        ep = CAPA.get("ep")
        plan_steps = getattr(ep, "execution_plan", None) if ep is not None else None
    if plan_steps is not None and "fw_plan" in CAP:
        o["stage"] = 3
        any0 = CAP.get("any0", {})
        for i, s in enumerate(CAP["fw_plan"]):
            if isinstance(s, FeatureGroupStep):
                us = [ren[u] for u in CAP["suu"][i]]
                tab.append((18 + 8 * i, us))
                a0 = any0.get(id(s))
                if a0 is not None and len(us) > 1:
                    first = ren[a0]
                    tab.append((2, [first] + [u for u in us if u != first]))
        tfs_ren: Dict[Any, int] = {}
        for s in plan_steps:
            if isinstance(s, JoinStep):
                ren[s.uuid] = lren[s.link.uuid] + 1
            elif isinstance(s, TransformFrameworkStep):
                if s.link_id is None:
                    tfs_ren[s.uuid] = 900 + len(tfs_ren)
                    ren[s.uuid] = tfs_ren[s.uuid]
                else:
                    ren[s.uuid] = lren[s.link_id] + 2
        plan = []
        for s in plan_steps:
            rq = [ren.get(u, 998) for u in s.required_uuids]
            if isinstance(s, FeatureGroupStep):
                feats = list(s.features.features)
                plan.append({"k": "FG", "uuids": [ren[f.uuid] for f in feats], "req": rq,
                             "requested": any(f.initial_requested_data for f in feats),
                             "grp": t.group_idx[uni.group_display(s.feature_group)], "cfw": cf(s.compute_framework),
                             "cir": [ren.get(u, 998) for u in s.children_if_root], "tfs": [ren.get(u, 998) for u in s.tfs_ids],
                             "any": ren.get(s.features.any_uuid, 998)})
            elif isinstance(s, JoinStep):
                plan.append({"k": "JOIN", "uuids": [ren[s.uuid], lren[s.link.uuid]], "req": rq, "uid": lren[s.link.uuid],
                             "lcfw": cf(s.left_framework), "rcfw": cf(s.right_framework),
                             "left": [ren[u] for u in s.left_framework_uuids], "right": [ren[u] for u in s.right_framework_uuids]})
            else:
                plan.append({"k": "TFS", "uuids": [ren[s.uuid]], "req": rq, "fromc": cf(s.from_framework), "toc": cf(s.to_framework),
                             "fromg": t.group_idx[uni.group_display(s.from_feature_group)], "tog": t.group_idx[uni.group_display(s.to_feature_group)],
                             "link": lren.get(s.link_id) if s.link_id else None})
        o["plan"] = plan
    o["tab"] = [[a, b] for a, b in tab]
    return o


def _declared_cfw(spec: Dict[str, Any], gname: str) -> str:
    for g in spec["groups"]:
        if g["name"] == gname:
            return str(g["cfw"])
    raise KeyError(gname)


# ------------------------------------------------------------------------------------------------------------
# Coq terms
# ------------------------------------------------------------------------------------------------------------

def _nl(xs: Any) -> str:
    return cq_list(cq_nat(x) for x in xs)


def _key(k: List[int]) -> str:
    return f"({cq_nat(k[0])}, ({cq_nat(k[1])}, {cq_nat(k[2])}))"


def _tdata(d: List[Any]) -> str:
    return cq_list(f"({_key(k)}, {_nl(v)})" for k, v in d)


def _amap(d: List[Any]) -> str:
    return cq_list(f"({cq_nat(k)}, {_nl(v)})" for k, v in d)


def _idx(ix: List[str]) -> str:
    return cq_list(vlib.cq_str(c) for c in ix)


def cq_links(links: List[List[Any]], used: Optional[List[int]] = None) -> str:
    return cq_list(f"{{| pl_uid := {cq_nat(u)}; pl_l := {{| jt := {jt}; lfg := {cq_nat(l)}; rfg := {cq_nat(r)}; lidx := {_idx(li)}; ridx := {_idx(ri)} |}} |}}"
                   for u, jt, l, r, li, ri in links if used is None or u in used)


def cq_graph(g: List[Any]) -> str:
    return cq_list(f"{{| fid := {cq_nat(u)}; fgrp := {cq_nat(gr)}; fins := {_nl(ins)}; freq := {cq_bool(rq)}; fcfw := {cq_nat(cf)} |}}"
                   for u, gr, ins, rq, cf in g)


def _step(s: Dict[str, Any], kind: str) -> str:
    return (f"{{| sid := 0%nat; skind := {kind}; uuids := {_nl(s['uuids'])}; req := {_nl(s['req'])}; "
            f"requested := {cq_bool(bool(s.get('requested', False)))} |}}")


def cq_lstep(s: Dict[str, Any]) -> str:
    if s["k"] == "FG":
        return f"LFG {_step(s, 'KFG')} {cq_nat(s['grp'])} {cq_nat(s['cfw'])} {_nl(s['cir'])} {_nl(s['tfs'])} {cq_nat(s['any'])}"
    if s["k"] == "JOIN":
        return f"LJOIN {_step(s, 'KJOIN')} {cq_nat(s['uid'])} {cq_nat(s['lcfw'])} {cq_nat(s['rcfw'])} {_nl(s['left'])} {_nl(s['right'])}"
    lk = "None" if s["link"] is None else f"(Some {cq_nat(s['link'])})"
    return f"LTFS {_step(s, 'KTFS')} {cq_nat(s['fromc'])} {cq_nat(s['toc'])} {cq_nat(s['fromg'])} {cq_nat(s['tog'])} {lk}"


def cq_case(o: Dict[str, Any]) -> str:
    def q(x: Any) -> str:
        return f"QL {_key(x)}" if isinstance(x, list) else f"QF {cq_nat(x)}"

    def p(e: List[Any]) -> str:
        return f"PL {_key(e[1:])}" if e[0] == "L" else f"PG {cq_nat(e[1])} {_nl(e[2])}"
    tab = cq_list(f"({cq_nat(a)}, {_nl(b)})" for a, b in o["tab"])
    return ("{| " + "; ".join([
        f"lc_g := {cq_graph(o['g'])}", f"lc_links := {cq_links(o['links'], o['used_links'])}", f"lc_tab := {tab}",
        f"lc_stage := {cq_nat(o['stage'])}", f"lc_data0 := {_tdata(o.get('data0', []))}",
        f"lc_lq := {cq_list(q(x) for x in o.get('lq', []))}", f"lc_pq0 := {cq_list(p(e) for e in o.get('pq0', []))}",
        f"lc_pq1 := {cq_list(p(e) for e in o.get('pq1', []))}", f"lc_data1 := {_tdata(o.get('data1', []))}",
        f"lc_dor1 := {_tdata(o.get('dor1', []))}", f"lc_order1 := {_amap(o.get('order1', []))}", f"lc_cm := {_amap(o.get('cm', []))}",
        f"lc_plan := {cq_list(cq_lstep(s) for s in o.get('plan', []))}", f"lc_outcome := {cq_nat(o['outcome'])}"]) + " |}")


# ------------------------------------------------------------------------------------------------------------
# the check
# ------------------------------------------------------------------------------------------------------------

def observe_all(specs: List[Dict[str, Any]]) -> List[Dict[str, Any]]:
    logging.disable(logging.CRITICAL)
    return [observe(s) for s in specs]


def observe_in_subprocess(specs: List[Dict[str, Any]], hash_seed: int, rep_prefix: str) -> List[Dict[str, Any]]:
    d = vlib.BUILD / rep_prefix
    d.mkdir(parents=True, exist_ok=True)
    fin, fout = d / f"planL_specs_{hash_seed}.json", d / f"planL_obs_{hash_seed}.json"
    fin.write_text(json.dumps(specs))
    env = dict(os.environ, PYTHONHASHSEED=str(hash_seed))
    p = subprocess.run([vlib.PY, "-m", "harness.planner_l", "--sub", str(fin), str(fout)], env=env, cwd=str(vlib.VERIF),
                       stdout=subprocess.PIPE, stderr=subprocess.PIPE, text=True, timeout=3600)
    if p.returncode != 0:
        raise RuntimeError(f"observation subprocess failed (PYTHONHASHSEED={hash_seed}): {p.stderr[-2000:]}")
    return json.loads(fout.read_text())  # type: ignore[no-any-return]


def compare(specs: List[Dict[str, Any]], obs: List[Dict[str, Any]], rep_prefix: str, tag: str) -> Tuple[List[Dict[str, Any]], Dict[str, Any]]:
    out: List[Dict[str, Any]] = []
    idx, good = [], []
    for i, o in enumerate(obs):
        if "error" in o:
            out.append({"spec": specs[i], "stage": "observe", "what": o["error"], "seed": tag})
        elif o.get("g") is None:
            # raised before the graph was resolved: only LinkValidator.validate_links is modelled there
            if o["outcome"] != E["links"]:
                out.append({"spec": specs[i], "stage": "observe", "what": f"prepare raised before resolve_links: {o.get('exc')}", "seed": tag})
            else:
                idx.append(i)
                good.append(o)
        else:
            idx.append(i)
            good.append(o)
    info: Dict[str, Any] = {"compared": len(good)}
    early = [k for k, o in enumerate(good) if o.get("g") is None]
    full = [k for k, o in enumerate(good) if o.get("g") is not None]
    # requests rejected by the link validation: the model must reject them too (validate_rejects)
    if early:
        terms = [cq_links([list(x) for x in Tables(specs[idx[k]]).links]) for k in early]
        bad, _ = vlib.run_cases(rep_prefix, f"planL_links_{tag}", REQ, "chk_links_rejected", terms, case_type="list plink", shard=100,
                                extra_defs="Definition chk_links_rejected (ls : list plink) := validate_rejects (map pl_l ls).")
        for j in bad:
            out.append({"spec": specs[idx[early[j]]], "stage": "validate_links", "seed": tag,
                        "what": f"real prepare: {good[early[j]].get('exc')}; the model's LinkValidator accepts the link set"})
    if full:
        terms = [cq_case(good[k]) for k in full]
        bad, ci = vlib.run_cases(rep_prefix, f"planL_all_{tag}", REQ, "chk_planner_L", terms, case_type="lcase", shard=40)
        info["coq"] = ci
        outside = vlib.run_cases(rep_prefix, f"planL_outside_{tag}", REQ, "model_inside", terms, case_type="lcase", shard=40)[0]
        info["model_outside"] = len(outside)
        info["model_outside_real_outcomes"] = sorted({E_NAME.get(good[full[j]]["outcome"], "?") for j in outside})
        stage_of: Dict[int, str] = {}
        if bad:
            sub = [terms[j] for j in bad]
            for stage in STAGES:
                for j in vlib.run_cases(rep_prefix, f"planL_diag_{tag}", REQ, stage, sub, case_type="lcase", shard=40)[0]:
                    stage_of.setdefault(bad[j], stage)
        for j in bad:
            o = good[full[j]]
            out.append({"spec": specs[idx[full[j]]], "stage": stage_of.get(j, "chk_planner_L"), "seed": tag,
                        "what": f"real planner and model differ at {stage_of.get(j, '?')} (real prepare: {E_NAME.get(o['outcome'], o['outcome'])}"
                                f"{' - ' + str(o.get('exc')) if o.get('exc') else ''})",
                        "observed": {kk: o.get(kk) for kk in ("g", "links", "data0", "lq", "pq0", "pq1", "data1", "dor1", "order1", "cm", "plan", "tab", "outcome")}})
    info["outcomes"] = {}
    for o in good:
        nm = E_NAME.get(o["outcome"], str(o["outcome"]))
        info["outcomes"][nm] = info["outcomes"].get(nm, 0) + 1
    info["joins"] = sum(1 for o in good for s in o.get("plan", []) if s["k"] == "JOIN")
    info["tfs"] = sum(1 for o in good for s in o.get("plan", []) if s["k"] == "TFS")
    return out, info


def check_plans(specs: List[Dict[str, Any]], rep_prefix: str, run_accepted: int = 0, hash_seeds: Tuple[int, ...] = (),
                run_timeout: float = 15.0) -> List[Dict[str, Any]]:
    """Disagreements between the real planner and the model on the fragment's specs among `specs` (in this process and, for
    every hash seed given, in a fresh subprocess with that PYTHONHASHSEED)."""
    logging.disable(logging.CRITICAL)
    sel = [s for s in specs if in_fragment(s)]
    out, info = compare(sel, observe_all(sel), rep_prefix, "inproc")
    infos = {"inproc": info}
    for hs in hash_seeds:
        d, i2 = compare(sel, observe_in_subprocess(sel, hs, rep_prefix), rep_prefix, f"hs{hs}")
        out += d
        infos[f"hs{hs}"] = i2
    n_run = 0
    if run_accepted:
        from harness.universe import Universe
        from harness.orch import run_observed, install
        install()
        for s in sel:
            if n_run >= run_accepted:
                break
            uni = Universe(s)
            try:
                try:
                    sess = uni.prepare()
                except Exception:  # noqa: BLE001
                    continue
                n_run += 1
                r = run_observed(sess, timeout=run_timeout)
                if r["status"] == "hang":
                    out.append({"spec": s, "stage": "run", "what": f"SYNC run of an accepted plan did not return ({r['scans']} loop iterations)"})
            finally:
                uni.dispose()
    LAST_INFO.clear()
    LAST_INFO.update({"specs": len(specs), "in_fragment": len(sel), "runs": n_run, "disagreements": len(out), "per_seed": infos})
    return out


# ------------------------------------------------------------------------------------------------------------
# defect domains decided in Coq (Model/PlannerL.v kf_code on the MODEL'S plan) vs harness/c05.kf_domain
# ------------------------------------------------------------------------------------------------------------
KF_NAME = {0: None, 1: "C05-right-join-not-honoured", 2: "C05-different-key-names-consumer-on-right-framework",
           3: "C05-left-join-roles-flipped-for-right-consumer", 4: "C05-multiway-join-across-frameworks",
           5: "rejected-at-prepare", 6: "outside-model"}
PLANNER_DOMAINS = {KF_NAME[i] for i in (1, 2, 3, 4)}


def classify(specs: List[Dict[str, Any]], rep_prefix: str = "PlannerL_kf") -> List[Optional[str]]:
    """Per request the defect domain decided IN COQ: the model (prepare_L under the observed orders) is evaluated on the
    request's feature graph and Links and kf_code inspects the model's plan (which table is LEFT in each JoinStep, join type,
    key names, transform steps).  None = no planner domain; 'unobserved' = the request could not be observed."""
    logging.disable(logging.CRITICAL)
    obs = observe_all(specs)
    idx = [i for i, o in enumerate(obs) if "error" not in o and o.get("g") is not None]
    out: List[Optional[str]] = ["unobserved"] * len(specs)
    if not idx:
        return out
    terms = [cq_case(obs[i]) for i in idx]
    codes = coq_values(rep_prefix, "classify", "classify_case", terms)
    for i, c in zip(idx, codes):
        out[i] = KF_NAME.get(c, f"code{c}")
    return out


def coq_values(rep_prefix: str, name: str, fn: str, terms: List[str], shard: int = 40) -> List[int]:
    """evaluate fn : lcase -> nat on every term inside Coq"""
    res: List[int] = []
    import re
    for k in range(0, len(terms), shard):
        body = ("Definition cases : list lcase := [\n" + ";\n".join(terms[k:k + shard]) + "\n].\n"
                f"Eval vm_compute in (map {fn} cases).")
        out = vlib.coq_eval(rep_prefix, f"{name}_{k}", REQ, body)
        m = re.search(r"=\s*\[(.*?)\]\s*:\s*list nat", out, re.S)
        if not m:
            raise RuntimeError(f"cannot parse coqc output: {out[-500:]}")
        res += [int(t) for t in re.findall(r"\d+", m.group(1))]
    if len(res) != len(terms):
        raise RuntimeError("classification count mismatch")
    return res


def compare_kf(n: int, seed: int) -> int:
    """>= n generated C05 requests: the Coq-decided planner domain against harness/c05.kf_domain (Python, on the request)."""
    from harness import c05
    rng = random.Random(seed)
    groups = c05.build_specs(rng, big=False)
    specs = [s for k in ("base", "multikey", "orient", "trees", "stars") for s in groups[k]]
    rng.shuffle(specs)
    specs = [s for s in specs if in_fragment(s)][:max(n, 300)]
    coq = classify(specs)
    dis = 0
    counts: Dict[str, int] = {}
    for s, c in zip(specs, coq):
        py = c05.kf_domain(s)
        py_planner = py if py in PLANNER_DOMAINS else None
        counts[str((py, c))] = counts.get(str((py, c)), 0) + 1
        if c in ("unobserved",):
            continue
        c_planner = c if c in PLANNER_DOMAINS else None
        if py_planner == c_planner:
            continue
        # kf_domain returns the FIRST matching domain in its own priority order: a data / engine domain may hide a planner domain
        if py is not None and py not in PLANNER_DOMAINS and c_planner is not None:
            why = "python reports an engine / data domain first; the planner domain found in Coq also applies"
        elif c == "rejected-at-prepare" or c == "outside-model":
            why = "the model rejects / leaves its fragment; python decides on the request alone"
        else:
            why = "DIFFERENT planner domains"
        dis += 1
        print("KF-DISAGREEMENT", "python:", py, "coq:", c, "-", why, json.dumps({"links": s["links"], "cfw": [g.get("cfw") for g in s["groups"]]}))
    print("compared", len(specs), "disagreements", dis)
    for k in sorted(counts):
        print("  ", counts[k], k)
    return dis


# ------------------------------------------------------------------------------------------------------------
# the run-time registry model (Model/PlannerLRun.v rt_get_cfw / rt_leftmost) against the real CfwManager
# ------------------------------------------------------------------------------------------------------------
MERGE_EXTRA = """
Definition msim (objs : list robj) (ms : list (nat * nat)) : hist :=
  fold_left (fun h m => match rt_get_cfw objs h (fst m), rt_get_cfw objs h (snd m) with
                        | Some c, Some fr => h ++ [(fr, c)]
                        | _, _ => h end) ms [].
Definition chk_merge (c : list robj * list (nat * nat) * list (nat * nat)) : bool :=
  match c with (objs, ms, qs) =>
    let h := msim objs ms in
    forallb (fun q => match rt_get_cfw objs h (fst q) with Some x => Nat.eqb x (snd q) | None => false end) qs
  end.
"""


def check_merge_model(n: int, seed: int, rep_prefix: str = "PlannerL") -> List[Dict[str, Any]]:
    """n random merge sequences: objects registered with overlapping children_if_root sets, JoinStep-style merges between the
    objects two uuids resolve to (CfwManager.get_cfw_uuid + add_to_merge_relation), then every uuid is looked up; the model
    replays the merge history (rt_leftmost) and must find the same objects."""
    import uuid as _uuid
    from mloda.core.core.cfw_manager import CfwManager
    from mloda.user import ParallelizationMode
    rng = random.Random(seed * 7919 + 3)
    terms, raw = [], []
    for _ in range(n):
        k = rng.randrange(2, 7)
        ids = [_uuid.uuid4() for _ in range(k)]
        feats = [_uuid.uuid4() for _ in range(k + rng.randrange(0, 4))]
        num = {u: i for i, u in enumerate(ids)}
        fnum = {u: 50 + i for i, u in enumerate(feats)}
        mgr = CfwManager({ParallelizationMode.SYNC})
        objs = []
        for j, oid in enumerate(ids):
            cir = {feats[j]} | set(rng.sample(feats, rng.randrange(0, min(3, len(feats)) + 1)))
            mgr.add_cfw_to_compute_frameworks(oid, "Cls", cir)
            objs.append((num[oid], sorted(fnum[u] for u in cir)))
        ms = []
        for _m in range(rng.randrange(1, 2 * k)):
            a, b = rng.choice(feats), rng.choice(feats)
            ca, cb = mgr.get_cfw_uuid("Cls", a), mgr.get_cfw_uuid("Cls", b)
            if ca is None or cb is None:
                continue
            mgr.add_to_merge_relation(ca, cb, "Cls")
            ms.append((fnum[a], fnum[b]))
        qs = [(fnum[u], num[mgr.get_cfw_uuid("Cls", u)]) for u in feats if mgr.get_cfw_uuid("Cls", u) is not None]
        raw.append({"objs": objs, "merges": ms, "queries": qs})
        terms.append("(" + cq_list(f"{{| ro_id := {cq_nat(i)}; ro_cir := {_nl(c)} |}}" for i, c in objs) + ", "
                     + cq_list(f"({cq_nat(a)}, {cq_nat(b)})" for a, b in ms) + ", "
                     + cq_list(f"({cq_nat(a)}, {cq_nat(b)})" for a, b in qs) + ")")
    bad, _ = vlib.run_cases(rep_prefix, "planL_merge", REQ + ["MV.Model.PlannerLRun"], "chk_merge", terms,
                            extra_defs=MERGE_EXTRA, case_type="list robj * list (nat * nat) * list (nat * nat)", shard=100)
    return [{"stage": "merge_model", "what": "CfwManager.get_cfw_uuid after a merge sequence differs from rt_get_cfw", "spec": raw[k]} for k in bad]


# ------------------------------------------------------------------------------------------------------------
# end to end: the rows the consumer receives = the model's plan run by the run-time model with rel_join (one framework)
# ------------------------------------------------------------------------------------------------------------
ROWS_EXTRA = """
Definition table := PlannerLRun.table.
Definition first_lookup (p : list lstep) : option nat :=
  match flat_map (fun x => match x with LFG _ _ _ _ (t :: _) _ => [t] | _ => [] end) p with t :: _ => Some t | [] => None end.
Definition model_rows (lc : lcase) (s0 : store) : option table :=
  match result_of lc with
  | LPlanned p =>
    match rt_run (objs_of_plan p) (joins_of_plan (ord_obs (lc_tab lc)) (lc_links lc) p) s0, first_lookup p with
    | Some st, Some t => rt_read (objs_of_plan p) st t
    | _, _ => None
    end
  | _ => None
  end.
Definition chk_rows (c : lcase * store * table) : bool :=
  match c with (lc, s0, obs) => match model_rows lc s0 with Some t => MV.Spec.Rel.bag_eqb t obs | None => false end end.
"""


def gen_rows_spec(rng: random.Random, cfw: str = "PyArrowTable") -> Dict[str, Any]:
    """3-4 roots on one framework with DIFFERENT key sets (so that the join order matters for mixed join types), a tree of
    INNER / LEFT / OUTER links on k, one consumer feature over all roots"""
    n = rng.randrange(2, 5)
    roots = []
    for i in range(n):
        ks = sorted(rng.sample(range(1, 6), rng.randrange(1, 5)))
        roots.append({"name": f"R{i}", "kind": "root", "cfw": cfw, "cols": {f"v{i}": [10 * (i + 1) + k for k in ks], "k": ks}})
    links = []
    for i in range(1, n):
        a = rng.randrange(0, i)
        l, r = (a, i) if rng.random() < 0.6 else (i, a)
        links.append({"jt": rng.choice(["INNER", "LEFT", "OUTER"]), "l": f"R{l}", "r": f"R{r}", "li": ["k"], "ri": ["k"]})
    ins = [f"v{i}" for i in range(n)]
    rng.shuffle(ins)
    return {"groups": roots + [{"name": "D1", "kind": "derived", "cfw": cfw, "features": {"f1": _feat(ins)}}], "request": ["f1"], "links": links}


def check_rows(specs: List[Dict[str, Any]], rep_prefix: str = "PlannerL") -> List[Dict[str, Any]]:
    """For accepted one-framework requests: run the real plan in SYNC, record the rows handed to the consumer's calculation and
    compare them in Coq with model_rows: the MODEL's plan (under the observed orders) executed by the run-time model with
    rel_join.  Requests whose run raises (an empty intermediate result on some engines) are skipped and counted."""
    from harness.universe import Universe
    from harness.c05 import Cap, cq_table, rows_of
    from harness.orch import run_observed, install
    install()
    out: List[Dict[str, Any]] = []
    terms, idx = [], []
    skipped = 0
    for i, spec in enumerate(specs):
        o = observe(spec)
        if "error" in o or o.get("g") is None or o["outcome"] != 0:
            skipped += 1
            continue
        cap = Cap()
        uni = Universe(spec, cap)
        try:
            try:
                sess = uni.prepare()
            except Exception:  # noqa: BLE001
                skipped += 1
                continue
            # the orders of THIS preparation (link uuids are fresh): observe again through the capture of this prepare
            o = _canon(spec, Tables(spec), uni, __import__("harness.planner_a", fromlist=["CAP"]).CAP.get("engine"), 0, None)
            r = run_observed(sess, timeout=20)
        finally:
            uni.dispose()
        if r["status"] != "ok" or cap.rows.get("D1") is None:
            skipped += 1
            continue
        t = Tables(spec)
        store = cq_list(f"({cq_nat(2 * t.name_idx[v])}, {cq_table(rows_of(g['cols']))})"
                        for g in spec["groups"] if g["kind"] == "root" for v in g["cols"] if v != "k")
        terms.append(f"({cq_case(o)}, {store}, {cq_table(cap.rows['D1'])})")
        idx.append(i)
    if terms:
        bad, _ = vlib.run_cases(rep_prefix, "planL_rows", REQ + ["MV.Model.PlannerLRun", "MV.Spec.Rel"], "chk_rows", terms, extra_defs=ROWS_EXTRA,
                                case_type="lcase * store * table", shard=30)
        for k in bad:
            out.append({"spec": specs[idx[k]], "stage": "rows", "what": "the rows the consumer received are not the model's plan run with rel_join"})
    LAST_INFO["rows"] = {"compared": len(terms), "skipped": skipped, "disagreements": len(out)}
    return out


def self_test_specs(n: int, seed: int) -> List[Dict[str, Any]]:
    rng = random.Random(seed)
    specs = all_two_root_specs() + [spec_diamond_consumer(), spec_intermediate_consumer()]
    for i in range(n):
        r = i % 4
        if r == 0:
            specs.append(gen_tree(rng, single=True))
        elif r == 1:
            specs.append(gen_tree(rng, single=True, jts=tuple(JTS)))
        elif r == 2:
            specs.append(gen_partial(rng))
        else:
            specs.append(gen_tree(rng, single=False))
    return specs


def main(argv: List[str]) -> int:
    if len(argv) > 1 and argv[1] == "--sub":
        specs = json.loads(open(argv[2]).read())
        open(argv[3], "w").write(json.dumps(observe_all(specs)))
        return 0
    if len(argv) > 1 and argv[1] == "--kf":
        vlib.ensure_makefile()
        ok, log = vlib.make_targets(["Model/PlannerL.vo"])
        if not ok:
            print(log[-3000:])
            return 1
        compare_kf(int(argv[2]) if len(argv) > 2 else 300, int(argv[3]) if len(argv) > 3 else 0)
        return 0
    n = int(argv[1]) if len(argv) > 1 else 80
    seed = int(argv[2]) if len(argv) > 2 else 0
    specs = self_test_specs(n, seed)
    pr = vlib.build_props("PlannerL")
    print("Props/PlannerL.v:", "ok" if pr.ok else "BROKEN", f"{pr.discharged}/{pr.obligations} statements,", sorted(set(pr.assumptions)))
    if not pr.ok:
        print(pr.log[-3000:])
        return 1
    dis = check_plans(specs, "PlannerL", run_accepted=0, hash_seeds=(1, 2))
    dm = check_merge_model(200, seed)
    print("merge model vs CfwManager: 200 sequences,", len(dm), "disagreements")
    dis += dm
    rng = random.Random(seed + 17)
    dr = check_rows([gen_rows_spec(rng, CF[i % 2]) for i in range(40)])
    print("rows received by the consumer vs the model's plan run with rel_join:", LAST_INFO.get("rows"))
    dis += dr
    print({k: v for k, v in LAST_INFO.items() if k != "per_seed"})
    for k, v in LAST_INFO["per_seed"].items():
        print(k, {a: b for a, b in v.items() if a != "coq"})
    for d in dis[:12]:
        print("DISAGREEMENT", d.get("seed"), d["stage"], d["what"], json.dumps(d["spec"])[:700])
    return 1 if dis else 0


if __name__ == "__main__":
    sys.exit(main(sys.argv))
