"""C13, family `live`: INTERLEAVED consumption of two or three streams of ONE prepared session.

Model: coq/Model/SessionLive.v (live runs of a session: open / one event of run i / close; `copies` = Engine.compute's deepcopy
of the plan incl. the step_is_done flags), Spec/SessionLiveSpec.v (a run executed alone), theorems in Props/C13.v
(C13_live_interleaving_invariant, C13_live_runs_equal_batch, the `_refuted` variants that share the step objects).

Tie: generated requests with >= 3 DEPENDENT requested feature-group steps (chains: the items appear in different iterations of
the orchestrator loop, so a run is suspended with work in flight), one prepared session, 2-3 generators driven by ONE consumer
thread in a PRNG-chosen interleaving: take a items of g0, b of g1, ..., then the rest in some order or item by item; consumer
behaviours per stream: drain, close() after k items, exception in the consumer after k items (the generator is finalised
later, when its last reference goes away), a run whose calculation fails (SYNC), a batch run() in between, per-stream api_data.
  judge   every stream's multiset of tables = the batch result of the same request and api_data (a closed stream: a
          sub-multiset), no next() hangs (watchdog), no exception, handed-out tables do not change, no thread / process is left,
          the session stays usable;
  model   the observed interleaving (which run advanced, what it yielded, how many loop iterations that took in SYNC) is replayed
          by chk_live in vm_compute.
Deterministic: no sleeps; next() waits for an item.  A next() that does not return is aborted through the plan iterator.
"""
from __future__ import annotations

import gc
import json
import multiprocessing
import random
import sys
import threading
import time
from collections import Counter
from typing import Any, Dict, List, Optional, Tuple

from lib import vlib
from lib.vlib import cq_bool, cq_list, cq_nat
from harness.universe import Universe, export_plan
from harness.orch import GateListener, REC, cq_plan, install, uuid_to_sid
from harness.c01 import canon_result

REQ = ["MV.Model.Orch", "MV.Model.Session", "MV.Model.SessionLive"]
CFWS = ["PyArrowTable", "PandasDataFrame", "PythonDictFramework"]
WATCHDOG_S = {"SYNC": 8.0, "THREADING": 8.0, "MULTIPROCESSING": 60.0}

_ABORT: set = set()                   # idents of consumer threads whose current next() must be given up
_SCANS: Dict[int, int] = {}           # consumer thread ident -> loop iterations of compute / compute_stream performed on it
_hooked = [False]


def _install_hooks() -> None:
    """On top of harness.orch.install(): loop iterations are counted per THREAD and only when the plan is iterated by the
    orchestrator's loop itself (a change that iterates the plan elsewhere must not look like a loop iteration), and a consumer
    thread can be made to leave a spinning loop."""
    install()
    if _hooked[0]:
        return
    _hooked[0] = True
    from mloda.core.prepare.execution_plan import ExecutionPlan
    prev = ExecutionPlan.__iter__

    def live_iter(self: Any) -> Any:
        ident = threading.get_ident()
        if ident in _ABORT:
            raise RuntimeError("VERIF-WATCHDOG: this next() was given up")
        try:
            code = sys._getframe(1).f_code
            if code.co_name in ("compute", "compute_stream") and code.co_filename.replace("\\", "/").endswith("runtime/run.py"):
                _SCANS[ident] = _SCANS.get(ident, 0) + 1
        except Exception:  # noqa: BLE001
            pass
        return prev(self)
    ExecutionPlan.__iter__ = live_iter  # type: ignore[method-assign]


# ------------------------------------------------------------------------------------------------------------
# requests: chains of >= 3 dependent requested feature-group steps
# ------------------------------------------------------------------------------------------------------------

def gen_live_spec(rng: random.Random) -> Dict[str, Any]:
    """R0 -> f1 -> f2 -> ... -> fL (L = 3..5), every rung in its own group or all rungs in one group (the planner splits a group
    into dependency levels), one framework or a framework switch in the middle, optional side branches (a second consumer of
    a rung: steps that the chain does not order), root backed by DataCreator or by api_data."""
    L = rng.randrange(3, 6)
    cfw0 = rng.choice(CFWS)
    switch = rng.random() < 0.25
    cfws = [cfw0] * (L + 1)
    if switch:
        at = rng.randrange(2, L + 1)
        other = rng.choice([c for c in CFWS if c != cfw0])
        cfws = [cfw0] * at + [other] * (L + 1 - at)
    n_rows = rng.randrange(1, 4)
    cols = {c: [rng.randrange(-5, 20) for _ in range(n_rows)] for c in ["a", "b"][: rng.randrange(1, 3)]}
    root: Dict[str, Any] = {"name": "R0", "kind": "root", "cfw": cfw0, "cols": cols}
    api = (not switch) and rng.random() < 0.35
    if api:
        root.update(kind="api", key="K0", features={c: {} for c in cols})
    one_group = (not switch) and rng.random() < 0.3
    groups: List[Dict[str, Any]] = [root]
    rungs: List[str] = []
    prev = rng.choice(list(cols))
    ladder: Dict[str, Any] = {}
    for k in range(1, L + 1):
        ins = [prev] + ([rng.choice(list(cols))] if rng.random() < 0.3 else [])
        f = {"inputs": ins, "c0": rng.randrange(-3, 4), "coefs": [rng.choice([1, 1, 2, -1, 3]) for _ in ins]}
        if one_group:
            ladder[f"f{k}"] = f
        else:
            groups.append({"name": f"D{k}", "kind": "derived", "cfw": cfws[k], "features": {f"f{k}": f}})
        rungs.append(f"f{k}")
        prev = f"f{k}"
    if one_group:
        groups.append({"name": "D1", "kind": "derived", "cfw": cfw0, "features": ladder})
    request = list(rungs) if rng.random() < 0.6 else sorted(rng.sample(rungs, 3), key=rungs.index) + ([rungs[-1]] if rng.random() < 0.5 else [])
    request = list(dict.fromkeys(request))
    branch = rng.random() < 0.3
    if branch:
        src = rng.choice(rungs[:-1])
        groups.append({"name": "B1", "kind": "derived", "cfw": cfws[rungs.index(src) + 1],
                       "features": {"g1": {"inputs": [src], "c0": rng.randrange(-3, 4), "coefs": [rng.choice([1, 2, -1])]}}})
        request.append("g1")
    if rng.random() < 0.25:
        request.append(rng.choice(list(cols)))
    return {"groups": groups, "request": request, "family": "live"}


def api_variants(rng: random.Random, spec: Dict[str, Any]) -> List[Optional[Dict[str, Any]]]:
    """[None (= the api_data given to prepare)] + two other data sets of the same shape"""
    out: List[Optional[Dict[str, Any]]] = [None]
    g = spec["groups"][0]
    if g["kind"] != "api":
        return out
    for _ in range(2):
        n = rng.randrange(1, 4)
        out.append({g["key"]: {c: [rng.randrange(-9, 30) for _ in range(n)] for c in g["cols"]}})
    return out


def totally_ordered(plan: Dict[str, Any]) -> bool:
    """every two steps are ordered by the wait-for relation (then no two steps can ever execute at the same time: free-running
    THREADING / MULTIPROCESSING is deterministic and outside every conflict / planner-defect domain), one framework, no
    transform or join step"""
    steps = plan["steps"]
    if any(s["kind"] != "FG" for s in steps) or len({s["cfw"] for s in steps}) != 1:
        return False
    prod = {u: s["sid"] for s in steps for u in s["uuids"]}
    waits = {s["sid"]: {prod[u] for u in s["req"] if u in prod} for s in steps}
    changed = True
    while changed:
        changed = False
        for a in waits:
            new = set().union(*[waits[b] for b in waits[a]]) - waits[a] if waits[a] else set()
            if new:
                waits[a] |= new
                changed = True
    ids = [s["sid"] for s in steps]
    return all(a == b or a in waits[b] or b in waits[a] for a in ids for b in ids)


def gen_script(rng: random.Random, n_items: int, mode: str, n_variants: int, fault_names: List[str]) -> Dict[str, Any]:
    """streams: per stream {behaviour, k, api}; order: which stream acts next (an exhausted stream's turns are skipped; whatever
    is still open at the end is drained in `final` order); batch_at: position of a batch run() in between (or None)"""
    K = rng.choice([2, 2, 3])
    streams = []
    for j in range(K):
        r = rng.random()
        if r < 0.5 or j == 0 and r < 0.8:
            b = {"beh": "drain"}
        elif r < 0.7:
            b = {"beh": "close", "k": rng.randrange(0, n_items + 1)}
        elif r < 0.87 or mode != "SYNC" or not fault_names:
            b = {"beh": "raise", "k": rng.randrange(1, n_items + 1), "drop_after": rng.randrange(0, 4)}
        else:
            b = {"beh": "fault", "feature": rng.choice(fault_names)}
        b["api"] = rng.randrange(n_variants)
        streams.append(b)
    order: List[int] = []
    style = rng.random()
    if style < 0.55:
        # a items of g0, b of g1, ... with the EARLIER stream ahead of the later one, then the rest stream by stream
        a = [rng.randrange(0, n_items + 1) for _ in range(K)]
        if n_items >= 2 and rng.random() < 0.7:
            a[0] = rng.randrange(2, n_items + 1)
            a[1] = rng.randrange(1, a[0])
        for j in range(K):
            order += [j] * a[j]
        rest = list(range(K))
        rng.shuffle(rest)
        for j in rest:
            order += [j] * (n_items + 2)
    else:
        # item by item in a random merge
        turns = [j for j in range(K) for _ in range(n_items + 2)]
        rng.shuffle(turns)
        order = turns
    final = list(range(K))
    rng.shuffle(final)
    batch_at = rng.randrange(1, max(2, len(order) // 2)) if rng.random() < 0.3 else None
    return {"streams": streams, "order": order, "final": final, "batch_at": batch_at, "batch_api": rng.randrange(n_variants)}


# ------------------------------------------------------------------------------------------------------------
# driving one case
# ------------------------------------------------------------------------------------------------------------

def _mode_set(mode: str) -> Any:
    from mloda.user import ParallelizationMode
    return {ParallelizationMode[mode]}


def _kw(mode: str) -> Dict[str, Any]:
    if mode != "MULTIPROCESSING":
        return {}
    from harness.orch import flight_server
    return {"flight_server": flight_server()}


def _fault_sid(plan: Dict[str, Any], feature: str) -> Optional[int]:
    for s in plan["steps"]:
        if s["kind"] == "FG" and feature in s["names"]:
            return int(s["sid"])
    return None


def drive(spec: Dict[str, Any], variants: List[Optional[Dict[str, Any]]], mode: str, script: Dict[str, Any]) -> Dict[str, Any]:
    """Runs the script on a fresh session.  Returns {plan, obs (for chk_live), problems, stats}."""
    _install_hooks()
    uni = Universe(spec, GateListener())
    sess = uni.prepare()
    plan = export_plan(sess, uni)
    u2s = uuid_to_sid(sess)
    rec: Dict[str, Any] = {"spec": spec, "variants": variants, "mode": mode, "script": script,
                           "plan": {k: v for k, v in plan.items() if k != "_ren"}, "obs": [], "problems": [], "hang": False}
    modes = _mode_set(mode)
    kw = _kw(mode)
    inline = mode == "SYNC"
    base_threads = set(threading.enumerate())
    base_procs = {p.pid for p in multiprocessing.active_children()}
    # reference: the batch result of the same request per api data (strictly sequential calls, before any stream exists)
    ref: Dict[int, Any] = {}
    for v in sorted({s["api"] for s in script["streams"]} | {script["batch_api"]}):
        try:
            ref[v] = Counter(canon_result(sess.run(parallelization_modes=modes, api_data=variants[v], **kw)))
        except Exception as e:  # noqa: BLE001
            rec["skipped"] = f"batch run raises: {str(e)[-100:]}"
            return rec
    n_req = sum(1 for s in plan["steps"] if s["kind"] == "FG" and s["requested"])
    rec["n_requested_steps"] = n_req
    streams = script["streams"]
    K = len(streams)
    state: Dict[str, Any] = {"cur": None, "done": False}
    got: List[List[Any]] = [[] for _ in range(K)]            # tables per stream
    at_yield: List[List[Any]] = [[] for _ in range(K)]
    status: List[str] = ["new"] * K                            # new | open | drained | closed | raised-consumer | raised | hang
    run_no: Dict[int, int] = {}
    counter = [0]
    problems: List[str] = rec["problems"]
    obs: List[Any] = rec["obs"]
    gens: List[Any] = []

    def consumer() -> None:
        ident = threading.get_ident()
        _SCANS[ident] = 0
        REC.reset()
        for j in range(K):
            gens.append(sess.stream_run(parallelization_modes=modes, api_data=variants[streams[j]["api"]], **kw))
        pending_drop: Dict[int, int] = {}                     # stream -> turns until the consumer's reference goes away

        def finalise(j: int, how: str) -> None:
            if how == "close":
                gens[j].close()
            gens[j] = None
            gc.collect()
            if j in run_no:
                obs.append(["close", run_no[j]])

        def advance(j: int) -> None:
            b = streams[j]
            if status[j] in ("drained", "closed", "raised", "hang"):
                return
            if status[j] == "raised-consumer":
                return
            if b["beh"] == "close" and len(got[j]) >= b["k"]:
                finalise(j, "close")
                status[j] = "closed"
                return
            if j not in run_no:
                run_no[j] = counter[0]
                counter[0] += 1
                fs = [_fault_sid(plan, b["feature"])] if b["beh"] == "fault" else []
                obs.append(["open", True, inline, [x for x in fs if x is not None]])
                status[j] = "open"
            n0, y0 = _SCANS[ident], len(REC.yields)
            state["cur"] = (j, len(got[j]))
            if b["beh"] == "fault":
                uni.fail = {(uni.feature_group_of[b["feature"]], b["feature"])}
            try:
                t = next(gens[j])
            except StopIteration:
                obs.append(["next", run_no[j], None, _SCANS[ident] - n0])
                status[j] = "drained"
                gens[j] = None
                return
            except Exception as e:  # noqa: BLE001
                if "VERIF-WATCHDOG" in str(e) or ident in _ABORT:
                    status[j] = "hang"
                    raise
                obs.append(["raise", run_no[j], _SCANS[ident] - n0])
                status[j] = "raised"
                rec.setdefault("exc", {})[j] = str(e)[-200:]
                gens[j] = None
                return
            finally:
                uni.fail = set()
            new = list(REC.yields[y0:])
            if len(new) != 1 or new[0] not in u2s:
                problems.append(f"stream {j}: one next() but {len(new)} keys were yielded by compute_stream")
            obs.append(["next", run_no[j], u2s.get(new[0], 999) if new else 999, _SCANS[ident] - n0])
            got[j].append(t)
            at_yield[j].append(canon_result([t]))
            if b["beh"] == "raise" and len(got[j]) >= b["k"]:
                try:
                    raise RuntimeError("consumer-error")        # the consumer's own code fails; nobody calls close()
                except RuntimeError:
                    pass
                status[j] = "raised-consumer"
                pending_drop[j] = b["drop_after"]

        def tick() -> None:
            for j in list(pending_drop):
                if pending_drop[j] <= 0:
                    del pending_drop[j]
                    finalise(j, "drop")
                else:
                    pending_drop[j] -= 1

        for pos, j in enumerate(script["order"]):
            if script["batch_at"] is not None and pos == script["batch_at"]:
                state["cur"] = ("batch", pos)
                i = counter[0]
                counter[0] += 1
                y0 = len(REC.yields)
                try:
                    res = sess.run(parallelization_modes=modes, api_data=variants[script["batch_api"]], **kw)
                    if Counter(canon_result(res)) != ref[script["batch_api"]]:
                        problems.append("a batch run() called while streams were suspended returned other tables than the same call before")
                    keys = sorted(s["sid"] for s in plan["steps"] if s["kind"] == "FG" and s["requested"])
                    obs.append(["run", i, inline, keys if len(res) == len(keys) else [999] * len(res)])
                except Exception as e:  # noqa: BLE001
                    if "VERIF-WATCHDOG" in str(e) or ident in _ABORT:
                        raise
                    problems.append(f"a batch run() called while streams were suspended raised: {str(e)[-160:]}")
            tick()
            advance(j)
        for j in list(pending_drop):
            del pending_drop[j]
            finalise(j, "drop")
        for j in script["final"]:
            while status[j] in ("new", "open"):
                advance(j)
        for j in list(pending_drop):
            del pending_drop[j]
            finalise(j, "drop")
        state["done"] = True

    th = threading.Thread(target=lambda: _guard(consumer, rec), daemon=True)
    t0 = time.time()
    th.start()
    th.join(WATCHDOG_S[mode])
    if th.is_alive():
        rec["hang"] = True
        cur = state["cur"]
        _ABORT.add(th.ident)
        th.join(10)
        _ABORT.discard(th.ident)
        if cur and cur[0] != "batch":
            j = cur[0]
            status[j] = "hang"
            if j in run_no:
                obs.append(["hang", run_no[j]])
            problems.append(
                f"next() of stream {j} did not return within {WATCHDOG_S[mode]:g} s: it had delivered {len(got[j])} of {n_req} tables "
                f"(the other streams: {[len(g) for g in got]}); the remaining results of run() are never yielded")
        else:
            problems.append(f"the consumer did not get through its script within {WATCHDOG_S[mode]:g} s (at {cur})")
        if th.is_alive():
            problems.append("the consumer thread could not be stopped")
    rec["wall"] = time.time() - t0
    for g in gens:
        if g is not None:
            try:
                g.close()
            except Exception:  # noqa: BLE001
                pass
    gens.clear()
    gc.collect()
    if rec.get("crash"):
        problems.append(f"consumer crashed: {rec['crash']}")
    # ---- judge ----
    for j in range(K):
        b = streams[j]
        m = Counter(canon_result(got[j]))
        want = ref[b["api"]]
        if status[j] == "drained":
            if b["beh"] == "fault":
                problems.append(f"stream {j}: a calculation of the run raises but the stream ended normally")
            elif m != want:
                problems.append(f"stream {j} (drained, {len(got[j])} tables): multiset of streamed tables differs from the batch result "
                                f"({sum(want.values())} tables) of the same request and api_data: missing {sum((want - m).values())}, "
                                f"extra {sum((m - want).values())}")
        else:
            if m - want:
                problems.append(f"stream {j} ({status[j]}): {sum((m - want).values())} streamed table(s) are not tables of the batch result")
            if status[j] == "raised" and b["beh"] != "fault":
                problems.append(f"stream {j}: next() raised although the batch run succeeds: {rec.get('exc', {}).get(j)}")
            if status[j] in ("new", "open") and not rec["hang"]:
                problems.append(f"stream {j}: neither drained nor closed at the end of the script")
        changed = [k for k, t in enumerate(got[j]) if canon_result([t]) != at_yield[j][k]]
        if changed:
            problems.append(f"stream {j}: table(s) {changed} changed AFTER they were handed to the consumer")
    deadline = time.time() + 5
    while time.time() < deadline and ((set(threading.enumerate()) - base_threads - {th}) or
                                      [p for p in multiprocessing.active_children() if p.pid not in base_procs]):
        time.sleep(0.01)
    left = [t.name for t in set(threading.enumerate()) - base_threads - {th}]
    leftp = [p for p in multiprocessing.active_children() if p.pid not in base_procs]
    if (left or leftp) and not rec["hang"]:
        problems.append(f"left behind after all streams were drained / closed: threads {left}, {len(leftp)} worker process(es)")
    for p in leftp:
        try:
            p.kill()
        except Exception:  # noqa: BLE001
            pass
    if not rec["hang"]:
        try:
            again = Counter(canon_result(list(sess.stream_run(parallelization_modes=modes, **kw))))
            if again != ref.get(0, again):
                problems.append("a plain streamed run after the interleaved ones differs from the batch result")
        except Exception as e:  # noqa: BLE001
            problems.append(f"a plain streamed run after the interleaved ones raised: {str(e)[-160:]}")
    rec["status"] = status
    rec["delivered"] = [len(g) for g in got]
    rec["runs"] = counter[0]
    uni.dispose()
    return rec


def _guard(fn: Any, rec: Dict[str, Any]) -> None:
    try:
        fn()
    except BaseException as e:  # noqa: BLE001
        if "VERIF-WATCHDOG" not in str(e):
            rec["crash"] = f"{type(e).__name__}: {str(e)[-200:]}"


# ------------------------------------------------------------------------------------------------------------
# Coq terms
# ------------------------------------------------------------------------------------------------------------

def cq_obs(o: List[Any]) -> str:
    k = o[0]
    if k == "open":
        return f"AOpen {cq_bool(o[1])} {cq_bool(o[2])} {cq_list(cq_nat(x) for x in o[3])}"
    if k == "next":
        item = "None" if o[2] is None else f"(Some {cq_nat(o[2])})"
        return f"ANext {cq_nat(o[1])} {item} {cq_nat(o[3])}"
    if k == "raise":
        return f"ARaise {cq_nat(o[1])} {cq_nat(o[2])}"
    if k == "hang":
        return f"AHang {cq_nat(o[1])}"
    if k == "run":
        return f"ARun {cq_nat(o[1])} {cq_bool(o[2])} {cq_list(cq_nat(x) for x in o[3])}"
    if k == "close":
        return f"AClose {cq_nat(o[1])}"
    raise ValueError(k)


def cq_case(rec: Dict[str, Any]) -> str:
    return f"({cq_plan(rec['plan'])}, {cq_list(cq_obs(o) for o in rec['obs'])})"


# ------------------------------------------------------------------------------------------------------------
# the family
# ------------------------------------------------------------------------------------------------------------

def seed_witness_case() -> Tuple[Dict[str, Any], List[Optional[Dict[str, Any]]], Dict[str, Any]]:
    """The history of Props/C13.v C13_live_shared_reset_refuted on a three-rung chain: 2 items of stream 0, 1 item of stream 1,
    stream 0 to its end, stream 1 to its end."""
    spec = {"groups": [{"name": "R0", "kind": "root", "cfw": "PyArrowTable", "cols": {"a": [1, 2, 3]}},
                       {"name": "D1", "kind": "derived", "cfw": "PyArrowTable", "features": {"f1": {"inputs": ["a"], "c0": 0, "coefs": [2]}}},
                       {"name": "D2", "kind": "derived", "cfw": "PyArrowTable", "features": {"f2": {"inputs": ["f1"], "c0": 0, "coefs": [3]}}},
                       {"name": "D3", "kind": "derived", "cfw": "PyArrowTable", "features": {"f3": {"inputs": ["f2"], "c0": 1, "coefs": [1]}}}],
            "request": ["f1", "f2", "f3"], "family": "live"}
    script = {"streams": [{"beh": "drain", "api": 0}, {"beh": "drain", "api": 0}], "order": [0, 0, 1] + [0] * 5 + [1] * 5, "final": [0, 1],
              "batch_at": None, "batch_api": 0}
    return spec, [None], script


def live_family(rep: vlib.Reporter, tier: str, rng: random.Random) -> Tuple[bool, Dict[str, Any], int]:
    """-> (found a failure, distribution info, number of evaluations)"""
    n_sync, n_thr, n_mp = (160, 80, 8) if tier == "thorough" else (22, 12, 1)
    info: Dict[str, Any] = {"cases": 0, "by_mode": {}, "streams": 0, "interleaved_nexts": 0, "behaviours": {}, "skipped": 0,
                            "batch_in_between": 0, "api_backed": 0, "with_side_branch_or_switch": 0, "hangs": 0}
    recs: List[Dict[str, Any]] = []
    found = False
    hangs = 0

    def run_case(spec: Dict[str, Any], variants: List[Any], mode: str, script: Dict[str, Any]) -> Optional[Dict[str, Any]]:
        nonlocal found, hangs
        rec = drive(spec, variants, mode, script)
        if rec.get("skipped"):
            info["skipped"] += 1
            return None
        recs.append(rec)
        info["cases"] += 1
        info["by_mode"][mode] = info["by_mode"].get(mode, 0) + 1
        info["streams"] += len(script["streams"])
        info["interleaved_nexts"] += sum(1 for o in rec["obs"] if o[0] == "next")
        info["batch_in_between"] += int(script["batch_at"] is not None)
        info["api_backed"] += int(spec["groups"][0]["kind"] == "api")
        for s, st in zip(script["streams"], rec["status"]):
            key = f"{s['beh']}->{st}"
            info["behaviours"][key] = info["behaviours"].get(key, 0) + 1
        if rec["hang"]:
            hangs += 1
            info["hangs"] = hangs
        for prob in rec["problems"]:
            rep.finding(f"live:{mode}:{json.dumps(spec, sort_keys=True)}:{json.dumps(script, sort_keys=True)}:{prob[:60]}",
                        f"interleaved streams of one session ({mode}, request {spec['request']}, streams "
                        f"{[(s['beh'], s.get('k')) for s in script['streams']]}, turns {script['order'][:12]}...): {prob}",
                        {"kind": "live", "spec": spec, "variants": variants, "mode": mode, "script": script, "problem": prob,
                         "observed": rec["obs"]})
            found = True
        if len([o for o in rec["obs"] if o[0] == "open"]) >= 2 and rec["n_requested_steps"] >= 3:
            rep.nontrivial(("live", spec, mode, script))
        return rec

    # the witness history of the refuted variant, in SYNC and THREADING
    wspec, wvars, wscript = seed_witness_case()
    for mode in ("SYNC", "THREADING"):
        run_case(wspec, wvars, mode, wscript)
    targets = {"SYNC": n_sync, "THREADING": n_thr, "MULTIPROCESSING": n_mp}
    done = {"SYNC": 0, "THREADING": 0, "MULTIPROCESSING": 0}
    tries = 0
    while any(done[m] < targets[m] for m in targets) and tries < 12 * (n_sync + n_thr + n_mp) and hangs < 3:
        tries += 1
        spec = gen_live_spec(rng)
        try:
            uni = Universe(spec, GateListener())
            plan = export_plan(uni.prepare(), uni)
            uni.dispose()
        except Exception:  # noqa: BLE001
            info["skipped"] += 1
            continue
        n_req = sum(1 for s in plan["steps"] if s["kind"] == "FG" and s["requested"])
        if n_req < 3:
            info["skipped"] += 1
            continue
        variants = api_variants(rng, spec)
        free_ok = totally_ordered(plan)
        is_api = spec["groups"][0]["kind"] == "api"
        if done["MULTIPROCESSING"] < targets["MULTIPROCESSING"] and free_ok and not is_api and spec["groups"][0]["cfw"] == "PyArrowTable":
            mode = "MULTIPROCESSING"
        elif done["THREADING"] < targets["THREADING"] and free_ok:
            mode = "THREADING"
        elif done["SYNC"] < targets["SYNC"]:
            mode = "SYNC"
        else:
            continue
        fault_names = [n for s in plan["steps"] if s["kind"] == "FG" for n in s["names"] if n.startswith(("f", "g"))]
        script = gen_script(rng, n_req, mode, len(variants), sorted(set(fault_names)))
        if mode == "MULTIPROCESSING":
            script["batch_at"] = None
        info["with_side_branch_or_switch"] += int(not free_ok)
        if run_case(spec, variants, mode, script) is not None:
            done[mode] += 1
    # replay of the observed interleavings against the model of the code
    terms = [cq_case(r) for r in recs]
    bad, cinfo = vlib.run_cases("C13", "live", REQ, "chk_live", terms, case_type="plan * list lobs", shard=40)
    info["model"] = {**cinfo, "disagreements": len(bad)}
    if bad:
        # diagnosis only: is the observation a run of one of the variants that share the step objects?
        sub = [terms[i] for i in bad[:8]]
        expl: Dict[int, str] = {}
        for rs, label in ((True, "shared step objects whose flags are reset at every open (C13_live_shared_reset_refuted)"),
                          (False, "shared step objects (C13_live_shared_flags_refuted)")):
            try:
                b2, _ = vlib.run_cases("C13", "live_diag", REQ, f"chk_live_shared {cq_bool(rs)}", sub, case_type="plan * list lobs", shard=40)
                for k in range(len(sub)):
                    if k not in b2:
                        expl.setdefault(bad[k], label)
            except Exception:  # noqa: BLE001
                pass
        for i in bad[:8]:
            r = recs[i]
            what = (f"the observed interleaving of {r['runs']} runs of one session ({r['mode']}, request {r['spec']['request']}) is not a run of the "
                    f"model of the code (Model/SessionLive.v, every run on its own plan copy): observed {r['obs']}")
            if i in expl:
                what += f"; it IS a run of the variant with {expl[i]}"
            rep.finding(f"live-model:{r['mode']}:{json.dumps(r['spec'], sort_keys=True)}:{json.dumps(r['script'], sort_keys=True)}", what,
                        {"kind": "live", "spec": r["spec"], "variants": r["variants"], "mode": r["mode"], "script": r["script"],
                         "observed": r["obs"], "explained_by": expl.get(i)})
            found = True
    n_eval = sum(r["runs"] + 2 for r in recs)
    if recs:
        r0 = recs[min(2, len(recs) - 1)]
        rep.sample({"family": "live", "request": r0["spec"]["request"], "mode": r0["mode"], "script": r0["script"], "observed": r0["obs"],
                    "delivered": r0["delivered"], "status": r0["status"]})
    return found, info, n_eval


def replay_case(r: Dict[str, Any]) -> Dict[str, Any]:
    rec = drive(r["spec"], r["variants"], r["mode"], r["script"])
    out = {k: rec.get(k) for k in ("mode", "obs", "problems", "status", "delivered", "hang", "skipped")}
    if not rec.get("skipped"):
        vlib.build_props("C13")
        bad, _ = vlib.run_cases("C13", "live_replay", REQ, "chk_live", [cq_case(rec)], case_type="plan * list lobs")
        out["model_agrees"] = not bad
    return out
