"""C06 - the MULTIPROCESSING store protocol of one compute-framework object (Model/MpStore.v, Props/C06store.v).

Family daggen.gen_two_uploads: the object of the root R (framework X) runs TWO feature-group steps whose tables readers in other
worker processes download (R: right side of join 1; D derived from R on X: right side of join 2), all pairs X != Y.
Per spec: SYNC run (fresh session) vs MULTIPROCESSING run (fresh session, the long-lived Flight server), multisets of result
tables compared; and the MULTIPROCESSING run is OBSERVED through class-level wrappers inherited by the forked workers
(FeatureGroupStep.execute, JoinStep/TransformFrameworkStep.execute, ComputeFramework.upload_finished_data,
FlightServer.download_table; JSON lines in one O_APPEND file = one global order):
  calcs   of R's object: (columns of its table after the step, need_to_upload) in execution order,
  uploads under the object's key: the columns uploaded, in order,
  reads   of the object's key by other workers: columns seen, lo = number of uploading steps of the object that had ENDED when the
          download began, hi = number that had BEGUN when it ended, req = the columns the reading step needs from the object
          (names of the object's features among the reader's required uuids + the link index).
MpStore.chk_replay (vm_compute in coqc) replays this against the model: the observed uploads are exactly the versions the code's rule
produces, every read returned one of the versions lo..hi (lo >= 1) and contains the required columns.
"""
from __future__ import annotations

import itertools
import json
import os
import random
from typing import Any, Dict, List, Optional, Tuple

from lib import vlib
from lib.vlib import cq_bool, cq_list, cq_nat
from harness import daggen, mp_obs
from harness.universe import Universe, export_plan, columns_of
from harness.orch import GateListener, run_observed, install, flight_server, uuid_to_sid
from harness.c01 import canon_result

REQ = ["MV.Model.MpStore"]
CASE_TYPE = "replay_case"
_inst: Dict[str, bool] = {}
_cur: Dict[str, Any] = {"fg": None}


def install_store_events() -> None:
    if _inst.get("x"):
        return
    _inst["x"] = True
    from mloda.core.core.step.feature_group_step import FeatureGroupStep
    from mloda.core.core.step.join_step import JoinStep
    from mloda.core.core.step.transform_frame_work_step import TransformFrameworkStep
    from mloda.core.abstract_plugins.compute_framework import ComputeFramework
    from mloda.core.runtime.flight.flight_server import FlightServer

    fg_orig = FeatureGroupStep.execute

    def fg_execute(self: Any, cfw_register: Any, cfw: Any, *a: Any, **kw: Any) -> Any:
        if mp_obs.CUR["sink"] is None:
            return fg_orig(self, cfw_register, cfw, *a, **kw)
        mp_obs.emit({"ev": "fg_b", "step": str(self.uuid), "cfw": str(cfw.uuid)})
        try:
            return fg_orig(self, cfw_register, cfw, *a, **kw)
        finally:
            try:
                cols = sorted(columns_of(cfw.data)) if cfw.data is not None else []
            except Exception:  # noqa: BLE001
                cols = []
            mp_obs.emit({"ev": "fg_e", "step": str(self.uuid), "cfw": str(cfw.uuid), "cols": cols, "need": bool(self.need_to_upload)})
    FeatureGroupStep.execute = fg_execute  # type: ignore[method-assign]

    def wrap_reader(cls: Any) -> None:
        orig = cls.execute

        def execute(self: Any, *a: Any, **kw: Any) -> Any:
            if mp_obs.CUR["sink"] is None:
                return orig(self, *a, **kw)
            mp_obs.emit({"ev": "rd_b", "step": str(self.uuid)})
            try:
                return orig(self, *a, **kw)
            finally:
                mp_obs.emit({"ev": "rd_e", "step": str(self.uuid)})
        cls.execute = execute
    wrap_reader(JoinStep)
    wrap_reader(TransformFrameworkStep)

    up_orig = ComputeFramework.upload_finished_data

    def upload_finished_data(self: Any, location: str) -> str:
        if mp_obs.CUR["sink"] is None:
            return up_orig(self, location)
        mp_obs.emit({"ev": "up_b", "key": str(self.uuid)})
        r = up_orig(self, location)
        try:
            cols = sorted(columns_of(self.data))
        except Exception:  # noqa: BLE001
            cols = []
        mp_obs.emit({"ev": "up_e", "key": str(self.uuid), "cols": cols})
        return r
    ComputeFramework.upload_finished_data = upload_finished_data  # type: ignore[method-assign]

    dl_orig = FlightServer.download_table

    def download_table(location: str, table_key: Any) -> Any:
        if mp_obs.CUR["sink"] is None:
            return dl_orig(location, table_key)
        mp_obs.emit({"ev": "dl_b", "key": str(table_key)})
        try:
            t = dl_orig(location, table_key)
        except BaseException as e:  # noqa: BLE001
            mp_obs.emit({"ev": "dl_x", "key": str(table_key), "err": str(e)[-80:]})
            raise
        mp_obs.emit({"ev": "dl_e", "key": str(table_key), "cols": sorted(str(c) for c in t.column_names)})
        return t
    FlightServer.download_table = staticmethod(download_table)  # type: ignore[method-assign]


def _exc_line(e: Any) -> str:
    import re
    txt = " ".join(str(e).replace("\\n", " ").split())
    hits = re.findall(r"(?:KeyError|ValueError|TypeError|IOError|ArrowInvalid)[^|]{0,170}", txt)
    first = re.search(r"Feature '[^']*' failed with[^|]{0,200}", txt)
    r = first.group(0) if first else (hits[0] if hits else txt[-260:])
    return re.split(r" (?:The above exception|During handling|Traceback)", r)[0][:200]


def family(big: bool, rng: random.Random) -> List[Dict[str, Any]]:
    pairs = [(x, y) for x, y in itertools.product(daggen.CFWS, repeat=2) if x != y]
    specs = [daggen.gen_two_uploads(rng, x, y, "join", slow=sl) for x, y in pairs for sl in ((0, 150, 400) if big else (150,))]
    return specs


def observe(spec: Dict[str, Any], fs: Any, sink_path: str) -> Dict[str, Any]:
    """fresh session per mode (a second MULTIPROCESSING run of one prepared session is unreliable on the unchanged tree)"""
    from mloda.user import ParallelizationMode
    install()
    install_store_events()
    uni = Universe(spec, GateListener())
    sess = uni.prepare()
    s = run_observed(sess)
    out: Dict[str, Any] = {"spec": spec, "sync": s["status"], "sync_exc": str(s.get("exc"))[-200:] if s["status"] != "ok" else None}
    base = canon_result(s["result"]) if s["status"] == "ok" else None
    uni2 = Universe(spec, GateListener())
    sess2 = uni2.prepare()
    plan = export_plan(sess2, uni2)
    u2s = {str(k): v for k, v in uuid_to_sid(sess2).items()}
    sink = mp_obs.Sink(sink_path)
    mp_obs.CUR["sink"] = sink
    try:
        m = run_observed(sess2, modes={ParallelizationMode.MULTIPROCESSING}, flight_server=fs, timeout=40)
    finally:
        mp_obs.CUR["sink"] = None
    out["mp"] = m["status"]
    out["mp_exc"] = _exc_line(m.get("exc")) if m["status"] != "ok" else None
    out["same"] = bool(m["status"] == "ok" and base is not None and canon_result(m["result"]) == base)
    ev = sink.read()
    sink.reset()
    out["case"] = replay_case(spec, plan, u2s, ev)
    uni.dispose()
    uni2.dispose()
    return out


def replay_case(spec: Dict[str, Any], plan: Dict[str, Any], u2s: Dict[str, int], ev: List[Dict[str, Any]]) -> Dict[str, Any]:
    steps = {s["sid"]: s for s in plan["steps"]}
    names = sorted({n for g in spec["groups"] for n in (g["cols"] if g["kind"] == "root" else g["features"])})
    ids = {n: i for i, n in enumerate(names)}

    def num(cols: List[str]) -> List[int]:
        return sorted(ids.get(c, 900 + k) for k, c in enumerate(cols))
    # the object: the compute framework on which R's step ran
    obj = next((e["cfw"] for e in ev if e["ev"] == "fg_e" and steps.get(u2s.get(e["step"], -1), {}).get("group") == "R"), None)
    case: Dict[str, Any] = {"object_found": obj is not None, "calcs": [], "ups": [], "reads": [], "groups_on_object": []}
    if obj is None:
        return case
    fg_b = [(i, e) for i, e in enumerate(ev) if e["ev"] == "fg_b" and e["cfw"] == obj]
    fg_e = [(i, e) for i, e in enumerate(ev) if e["ev"] == "fg_e" and e["cfw"] == obj]
    case["calcs"] = [(num(e["cols"]), bool(e["need"])) for _, e in fg_e]
    case["groups_on_object"] = [steps.get(u2s.get(e["step"], -1), {}).get("group") for _, e in fg_e]
    up_begin = [i for i, e in fg_b if next((x["need"] for _, x in fg_e if x["step"] == e["step"]), False)]
    up_end = [i for i, e in fg_e if e["need"]]
    case["ups"] = [num(e["cols"]) for e in ev if e["ev"] == "up_e" and e["key"] == obj]
    own = {n for _, e in fg_e for n in steps.get(u2s.get(e["step"], -1), {}).get("names", [])}
    link_idx = {c for l in spec.get("links") or [] for c in l["ri"]}
    for i, e in enumerate(ev):
        if e["ev"] not in ("dl_e", "dl_x") or e["key"] != obj:
            continue
        b = max((j for j in range(i) if ev[j]["ev"] == "dl_b" and ev[j]["pid"] == e["pid"] and ev[j]["key"] == obj), default=i)
        rd = next((ev[j] for j in range(b, -1, -1) if ev[j]["ev"] == "rd_b" and ev[j]["pid"] == e["pid"]), None)
        rstep = steps.get(u2s.get(rd["step"], -1), {}) if rd else {}
        prod = {u: (s_["names"][k]) for s_ in plan["steps"] if s_["kind"] == "FG" for k, u in enumerate(s_["uuids"])}
        req_names = {prod[u] for u in rstep.get("req", []) if u in prod and prod[u] in own}
        # a join / a transform for a join also needs the index column of the right side
        req = num(sorted(req_names | (link_idx if req_names else set())))
        lo = sum(1 for x in up_end if x < b)
        hi = sum(1 for x in up_begin if x < i)
        case["reads"].append({"lo": lo, "hi": hi, "seen": num(e.get("cols") or []), "req": req, "reader": rstep.get("kind"),
                              "failed": e["ev"] == "dl_x"})
    return case


def cq_case(c: Dict[str, Any]) -> str:
    ls = lambda xs: cq_list(cq_nat(x) for x in xs)  # noqa: E731
    calcs = cq_list(f"({ls(cols)}, {cq_bool(need)})" for cols, need in c["calcs"])
    ups = cq_list(ls(u) for u in c["ups"])
    reads = cq_list(f"({cq_nat(r['lo'])}, {cq_nat(r['hi'])}, {ls(r['seen'])}, {ls(r['req'])})" for r in c["reads"])
    return f"({calcs}, {ups}, {reads})"


def exercised(c: Dict[str, Any]) -> bool:
    """the mechanism is exercised: two uploading steps ran on the object and a read followed each of them"""
    return (sum(1 for _, need in c["calcs"] if need) >= 2 and any(r["lo"] >= 2 for r in c["reads"])
            and any(r["lo"] == 1 or r["hi"] >= 1 for r in c["reads"]))


def check(rep: vlib.Reporter, big: bool, rng: random.Random, fs: Any) -> Tuple[bool, int, Dict[str, Any]]:
    """returns (violation found, evaluations, distribution)"""
    specs = family(big, rng)
    sink_path = str(vlib.BUILD / "C06" / f"store_sink_{os.getpid()}.jsonl")
    obs = [observe(s, fs, sink_path) for s in specs]
    terms = [cq_case(o["case"]) for o in obs]
    bad, info = vlib.run_cases("C06", "store", REQ, "chk_replay", terms, case_type=CASE_TYPE, shard=100)
    bad_set = set(bad)
    dist = {"specs": len(specs), "sync_ok": 0, "mp_same": 0, "exercised (2 uploads of one object, a reader behind each)": 0,
            "replay_disagreements": len(bad), "pairs": sorted({f"{s['x']}>{s['y']}" for s in specs}), "coq": info}
    found = False
    for i, o in enumerate(obs):
        spec = o["spec"]
        key = json.dumps(spec, sort_keys=True)
        if o["sync"] != "ok":
            rep.finding(f"two-uploads-sync:{key}", f"two_uploads {spec['x']}>{spec['y']}: the SYNC run {o['sync']}: {o['sync_exc']}",
                        {"kind": "two_uploads", "spec": spec})
            found = True
            continue
        dist["sync_ok"] += 1
        ex = exercised(o["case"])
        dist["exercised (2 uploads of one object, a reader behind each)"] += int(ex)
        if ex:
            rep.nontrivial(("two_uploads", spec["x"], spec["y"], spec["groups"][4].get("delay_ms", 0)))
        if o["same"]:
            dist["mp_same"] += 1
        else:
            what = (f"two_uploads (R on {spec['x']} is the right side of join 1, D derived on R's object the right side of join 2, "
                    f"left sides on {spec['y']}): MULTIPROCESSING " +
                    ("returned other tables than SYNC" if o["mp"] == "ok" else f"run {o['mp']}: {o['mp_exc']}") +
                    f"; store of R's object: steps {o['case']['groups_on_object']} uploads {o['case']['ups']} reads "
                    f"{[(r['lo'], r['hi'], r['seen'], r['req']) for r in o['case']['reads']]}")
            rep.finding(f"two-uploads-mp:{key}", what, {"kind": "two_uploads", "spec": spec, "case": o["case"]})
            found = True
        if i in bad_set:
            c = o["case"]
            rep.finding(f"two-uploads-store:{key}",
                        f"two_uploads {spec['x']}>{spec['y']}: the observed uploads / downloads of the key of R's object are not a run of the "
                        f"store protocol (MpStore.chk_replay = false): steps on the object {c['groups_on_object']} with (columns, need_to_upload) "
                        f"{c['calcs']}, uploads {c['ups']}, reads (lo, hi, seen, required) "
                        f"{[(r['lo'], r['hi'], r['seen'], r['req']) for r in c['reads']]}" +
                        ("" if c["object_found"] else " [R's step was not observed]"),
                        {"kind": "two_uploads", "spec": spec, "case": c})
            found = True
        elif not ex and o["same"]:
            dist.setdefault("not_exercised", []).append({"pair": f"{spec['x']}>{spec['y']}", "steps": o["case"]["groups_on_object"]})
    if obs:
        rep.sample({"two_uploads": {"spec": obs[0]["spec"], "case": obs[0]["case"]}})
    return found, 3 * len(specs), dist


def replay(r: Dict[str, Any]) -> int:
    from harness.orch import stop_flight_server
    fs = flight_server()
    o = observe(r["spec"], fs, str(vlib.BUILD / "C06" / "store_sink_replay.jsonl"))
    bad, _ = vlib.run_cases("C06", "store_replay", REQ, "chk_replay", [cq_case(o["case"])], case_type=CASE_TYPE)
    print("SYNC:", o["sync"], "MP:", o["mp"], o["mp_exc"] or "", "same:", o["same"])
    print("store case:", json.dumps(o["case"]))
    print("chk_replay:", not bad)
    stop_flight_server()
    return 0
