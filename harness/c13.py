"""C13 — streaming yields the same results as the batch call.

Theorems: coq/Props/C13.v (stream = batch for every plan, back end, failure oracle and event trace; nothing held back,
nothing twice, nothing lost).  Ties on the real mloda:
  T2  streamed SYNC runs: begin order, set of yielded steps and outcome = model (chk_sync_stream in vm_compute);
  end to end: list(stream_run) vs run as multisets of tables, per mode; every yielded key is a distinct requested
  feature-group step; consumer behaviours (drain, stop after k items for every k, exception in the consumer) leave no
  thread behind and the session stays usable; repeated streamed runs on one session;
  family `live` (harness/c13_live.py, Model/SessionLive.v): two or three streams of ONE session consumed in PRNG-chosen
  interleavings (SYNC, THREADING, a MULTIPROCESSING sample), judged per stream against the batch result and replayed by chk_live.
"""
from __future__ import annotations

import gc
import json
import logging
import random
import threading
import time
from typing import Any, Dict, List, Optional

from lib import vlib
from lib.vlib import cq_list, cq_nat
from harness.universe import Universe, export_plan, kf_tfs_partial_requirement, kf_framework_roundtrip, kf_tfs_missing
from harness.orch import GateListener, run_observed, cq_plan, install, uuid_to_sid, REC
from harness.c01 import gen_specs, canon_result, cq_status

LEVEL = "proof"
logging.disable(logging.CRITICAL)
REQ = ["MV.Model.Orch", "MV.Model.OrchCheck"]


def modes() -> Dict[str, Any]:
    from mloda.user import ParallelizationMode
    return {"SYNC": {ParallelizationMode.SYNC}, "THREADING": {ParallelizationMode.THREADING}}


AT_YIELD: List[Any] = []


def stream_items(sess: Any, mode: Any) -> Any:
    """Drains the stream; the canonical content of every item is recorded the moment it is received (AT_YIELD): a table that was
    handed out must not change afterwards (it is the consumer's), so the same objects are canonicalised again at the end."""
    AT_YIELD.clear()
    out = []
    for t in sess.stream_run(parallelization_modes=mode):
        AT_YIELD.append(canon_result([t]))
        out.append(t)
    return out


def one(spec: Dict[str, Any], rng: random.Random, only_modes: Optional[List[str]] = None) -> Dict[str, Any]:
    uni = Universe(spec, GateListener())
    sess = uni.prepare()
    plan = export_plan(sess, uni)
    u2s = uuid_to_sid(sess)
    rec: Dict[str, Any] = {"spec": spec, "plan": {k: v for k, v in plan.items() if k != "_ren"}, "modes": {}, "problems": []}
    from harness import planner_b      # defect domains decided in Coq (Model/PlanDefects.v classify_plan), cached per plan
    in_kf = bool(planner_b.classify_cached(plan, rep_prefix="C13"))
    rec["in_kf"] = in_kf
    # streamed SYNC run observed for the model
    o = run_observed(sess, stream=True)
    ys = o["yield_order"]
    rec["sync_stream"] = {"begin": o["begin_order"], "yields": ys, "status": o["status"], "raised": o["raised_steps"]}
    rec["foot"] = o["foot"]
    base_threads = set(threading.enumerate())
    for mname, mode in modes().items():
        if only_modes is not None and mname not in only_modes:
            continue
        if mname == "THREADING" and in_kf:
            continue            # schedule-dependent known defects would make batch and stream differ by chance
        m: Dict[str, Any] = {}
        try:
            batch = canon_result(sess.run(parallelization_modes=mode))
            m["batch"] = "ok"
        except Exception as e:  # noqa: BLE001
            batch, m["batch"] = None, "raised"
        try:
            REC.yields.clear()
            tables = stream_items(sess, mode)
            items = list(zip(list(REC.yields), tables))
            m["stream"] = "ok"
            if len(REC.yields) != len(tables):
                rec["problems"].append(f"{mname}: {len(tables)} tables yielded for {len(REC.yields)} keys")
        except Exception as e:  # noqa: BLE001
            items, m["stream"] = None, "raised"
        if m["batch"] != m["stream"]:
            rec["problems"].append(f"{mname}: batch {m['batch']} but stream {m['stream']}")
        elif items is not None:
            keys = [u for u, _ in items]
            if len(set(keys)) != len(keys):
                rec["problems"].append(f"{mname}: a step was yielded twice")
            bad_keys = [u for u in keys if u not in u2s or rec["plan"]["steps"][u2s[u]]["kind"] != "FG"
                        or not rec["plan"]["steps"][u2s[u]]["requested"]]
            if bad_keys:
                rec["problems"].append(f"{mname}: yielded key is not a requested feature-group step")
            if canon_result([t for _, t in items]) != batch:
                rec["problems"].append(f"{mname}: multiset of streamed tables differs from the batch result")
            changed = [k_ for k_, (_, t) in enumerate(items) if k_ < len(AT_YIELD) and canon_result([t]) != AT_YIELD[k_]]
            if changed:
                rec["problems"].append(f"{mname}: streamed table(s) {changed} changed AFTER they were handed to the consumer (the result aliases "
                                       "data the run keeps working on)")
            m["n_items"] = len(items)
            # consumer behaviours
            if m["stream"] == "ok":
              try:
                for k in range(len(items) + 1):
                    g = sess.stream_run(parallelization_modes=mode)
                    got = []
                    for _ in range(k):
                        try:
                            got.append(next(g))
                        except StopIteration:
                            break
                    g.close()
                    del g
                    gc.collect()
                # exception in the consumer
                try:
                    for it in sess.stream_run(parallelization_modes=mode):
                        raise RuntimeError("consumer-error")
                except RuntimeError:
                    pass
                gc.collect()
                deadline = time.time() + 5
                while time.time() < deadline and (set(threading.enumerate()) - base_threads):
                    time.sleep(0.01)
                left = [t.name for t in set(threading.enumerate()) - base_threads]
                if left:
                    rec["problems"].append(f"{mname}: threads left after abandoned/failed generators: {left}")
                # session still usable, repeated streamed run equals batch
                again = canon_result(stream_items(sess, mode))
                if again != batch:
                    rec["problems"].append(f"{mname}: streamed run after abandoned generators differs from batch")
              except Exception as e:  # noqa: BLE001
                rec["problems"].append(f"{mname}: a later streamed run raised although the first succeeded: {str(e)[-120:]}")
        rec["modes"][mname] = m
    return rec


def run(rep: vlib.Reporter, tier: str, seed: int) -> None:
    rng = random.Random(seed * 1013 + 13)
    install()
    pr = vlib.build_props("C13", extra_targets=["Model/OrchCheck.vo"])
    rep.proof(pr)
    rep.coverage["trusted_base"] += [
        "hand-written model Model/Orch.v: compute_stream = compute + drain of result_data_collection after each loop iteration "
        "(run.py, data_lifecycle_manager.pop_result_data_collection); tied by streamed SYNC traces",
        "generator finalisation (try/finally in mlodaAPI.stream_run, GeneratorExit on close/GC) is runtime behaviour: observed "
        "(threads left behind, session reusable), not modelled",
        "hand-written model Model/SessionLive.v of live runs (Engine.compute's deepcopy = private step_is_done flags per run; a "
        "generator suspended between two events); tied by observed interleavings of 2-3 streams replayed by chk_live; in THREADING / "
        "MULTIPROCESSING the replay uses the fair schedule and compares which items were delivered, not at which iteration"]
    n = 250 if tier == "thorough" else 36
    specs, gstats = gen_specs(rng, n)
    from harness.c01 import cq_foot, EXTRA as C01_EXTRA
    recs = [one(s, rng, only_modes=["SYNC"]) for s in specs]
    # THREADING (free running) only on plans without unordered conflicting steps (decided by conflict_free in Coq)
    cf_terms = [f"({cq_plan(r['plan'])}, {cq_foot(r['foot'])})" for r in recs]
    conflicted = set(vlib.run_cases("C13", "cf", REQ, "chk_cf", cf_terms, extra_defs=C01_EXTRA, case_type="plan * foot", shard=60)[0])
    # planner defect domains decided in Coq on the exported plan (Model/PlanDefects.v); the Python predicates are only counted
    from harness import planner_b
    coq_cls = planner_b.classify([r["plan"] for r in recs], rep_prefix="C13")
    n_py_only = sum(1 for r, c in zip(recs, coq_cls) if r["in_kf"] and not c)
    for r, c in zip(recs, coq_cls):
        r["in_kf"] = bool(c)
    for i, r in enumerate(recs):
        if i in conflicted or r["in_kf"]:
            continue
        r2 = one(r["spec"], rng, only_modes=["THREADING"])
        r["modes"].update(r2["modes"])
        r["problems"] += r2["problems"]
    terms = [f"({cq_plan(r['plan'])}, ({cq_list(cq_nat(x) for x in r['sync_stream']['begin'])}, "
             f"{cq_list(cq_nat(x) for x in r['sync_stream']['yields'])}, {cq_status(r['sync_stream']['status'])}, "
             f"{cq_list(cq_nat(x) for x in r['sync_stream']['raised'])}))" for r in recs]
    bad, info = vlib.run_cases("C13", "stream_sync", REQ, "chk_sync_stream", terms,
                               case_type="plan * (list nat * list nat * ostatus * list nat)", shard=60)
    found = False
    n_runs = 0
    dist = {"specs": len(recs), "generator": gstats, "in_kf_domain": sum(r["in_kf"] for r in recs), "in_python_predicate_only": n_py_only,
            "plans_with_unordered_conflicts": len(conflicted), "stream_ok": 0, "both_raised": 0, "items_hist": {}}
    for i, r in enumerate(recs):
        for mname, m in r["modes"].items():
            n_runs += 2 + m.get("n_items", 0) + 3
            if m.get("stream") == "ok":
                dist["stream_ok"] += 1
                k = m.get("n_items", 0)
                dist["items_hist"][k] = dist["items_hist"].get(k, 0) + 1
                if k >= 2:
                    rep.nontrivial(("s", r["spec"], mname))
            elif m.get("batch") == "raised":
                dist["both_raised"] += 1
        for prob in r["problems"]:
            rep.finding(f"e2e:{json.dumps(r['spec'], sort_keys=True)}:{prob}", prob, {"kind": "e2e", "spec": r["spec"], "problem": prob})
            found = True
    # MULTIPROCESSING family (harness/c13_mp.py): streamed = batch, stop after k for every k, exception in the consumer, and what an
    # abandoned / failed generator leaves behind (worker processes, datasets in the long-lived Flight store).  On plans without
    # unordered conflicting steps, outside the planner defect domains, preferring plans in which one compute-framework object runs
    # several feature-group steps the first of which is requested (its upload outlives the step).
    from harness import c13_mp

    def mp_rank(r: Dict[str, Any]) -> int:
        fg = [s for s in r["plan"]["steps"] if s["kind"] == "FG"]
        multi = any(a["requested"] and any(b is not a and b["cfw"] == a["cfw"] and set(a["uuids"]) & set(b["req"]) for b in fg) for a in fg)
        return (0 if multi else 1) * 10 + (0 if len([s for s in fg if s["requested"]]) >= 2 else 1)
    mp_cand = [r for i, r in enumerate(recs) if i not in conflicted and not r["in_kf"] and r["sync_stream"]["status"] != "raised"
               and not any(s["kind"] == "TFS" and s["from_cfw"] != "PyArrowTable" for s in r["plan"]["steps"])
               and not any(g["kind"] == "api" for g in r["spec"]["groups"])]
    mp_cand.sort(key=mp_rank)
    mp_probs, mp_info = c13_mp.mp_family([r["spec"] for r in mp_cand], 30 if tier == "thorough" else 3)
    for spec_, prob in mp_probs:
        rep.finding(f"e2e-mp:{json.dumps(spec_, sort_keys=True)}:{prob}", prob, {"kind": "e2e-mp", "spec": spec_, "problem": prob})
        found = True
    n_runs += mp_info["runs"]
    dist["multiprocessing_family"] = {**mp_info, "candidates": len(mp_cand), "with_multi_step_object": sum(1 for r in mp_cand if mp_rank(r) < 10)}
    # a consumer that is SLOW between two items of a MULTIPROCESSING stream (compute_stream is suspended meanwhile, the worker
    # processes get no command): the stream must still deliver the remaining items, equal the batch result and leave nothing
    # behind; the observed history is replayed as a trace of Model/Worker.v (an idle worker never gives up: Worker_death_causes)
    from harness import worker_proto
    prw = vlib.build_props("Worker")
    rep.proof(prw)
    slow_probs: List[str] = []
    for pause in ((11.0, 31.0) if tier == "thorough" else (11.0,)):
        slow_probs += [f"consumer pausing {pause:g} s after the first item: {p_}" for p_ in worker_proto.slow_consumer_case(pause, "C13")]
    for p_ in slow_probs:
        rep.finding(f"slow-consumer:{p_[:120]}", "MULTIPROCESSING stream with a slow consumer: " + p_, {"kind": "slow-consumer", "problem": p_})
        found = True
    n_runs += 2 if tier == "thorough" else 1
    dist["slow_consumer_cases"] = 2 if tier == "thorough" else 1
    # interleaved consumption of several live streams of one session (Model/SessionLive.v, harness/c13_live.py)
    from harness import c13_live
    live_found, live_info, live_n = c13_live.live_family(rep, tier, random.Random(seed * 7919 + 1313))
    found = found or live_found
    n_runs += live_n
    dist["live_family"] = live_info
    for i in bad[:5]:
        r = recs[i]
        if r["sync_stream"]["status"] == "raised" and not r["sync_stream"]["raised"]:
            continue       # exception raised by the main thread outside a step (result collection), not a step failure
        rep.finding(f"model:{json.dumps(r['spec'], sort_keys=True)}",
                    f"streamed SYNC run {r['sync_stream']} is not the model's run", {"kind": "model", **r})
        found = True
    rep.count(n_runs)
    rep.add("distribution", dist)
    rep.add("stream_sync_model", {**info, "disagreements": len(bad)})
    rep.add("traces_validated_against_impl", len(recs))
    rep.add("rule", "request DAGs as in C01 (harness/daggen.py); per spec: streamed SYNC run vs model; per mode {SYNC, THREADING "
                    "(skipped for plans inside the known planner-defect domains)}: batch vs stream multisets, key uniqueness, "
                    "stop-after-k for every k, consumer exception, thread leak, re-run. non-trivial = >= 2 streamed items; family live: "
                    "chains of >= 3 dependent requested feature-group steps, 2-3 streams of one session driven in a PRNG-chosen "
                    "interleaving (drain / close after k / consumer exception / failing run / batch run in between / per-stream api_data); "
                    "non-trivial = >= 2 runs opened on a plan with >= 3 requested feature-group steps")
    rep.sample({"spec": recs[0]["spec"], "sync_stream": recs[0]["sync_stream"], "modes": recs[0]["modes"]})
    if not pr.ok and not found:
        rep.finding("proof-broken", "Props/C13.v no longer checks",
                    {"failed_files": pr.failed_files, "forbidden": pr.forbidden, "log_tail": pr.log[-3000:]}, found_input=False)


def replay(path: str) -> int:
    r = json.load(open(path))["replay"]
    install()
    if r.get("kind") == "slow-consumer":
        from harness import worker_proto
        vlib.build_props("Worker")
        print(worker_proto.slow_consumer_case(11.0, "C13"))
        return 0
    if r.get("kind") == "live":
        from harness import c13_live
        print(json.dumps(c13_live.replay_case(r), indent=1, default=str))
        return 0
    if r.get("kind") == "e2e-mp":
        from harness import c13_mp
        print(json.dumps(c13_mp.one(r["spec"]), indent=1, default=str))
        return 0
    rec = one(r["spec"], random.Random(0))
    print(json.dumps({k: rec[k] for k in ("sync_stream", "modes", "problems")}, indent=1, default=str))
    return 0
