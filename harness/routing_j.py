"""Model/RoutingJ.v case terms: routing with JoinSteps and the relational data plane (C05).

terms_x(spec, plan, begin_order, foot) -> (xstep terms, foot terms) or None
  spec         harness.universe spec with root groups (tables) and links
  plan         export_plan(...) with req_order / tfs_order / right_uuid / left_order / right_order
  begin_order  step ids in begin order; foot {sid: (object written, [objects read])} in the run's own numbering
Root FeatureGroupSteps carry the table their calculation creates (the group's columns); every other FeatureGroupStep is
a reader (tab = None).  Objects are renamed to the first begun step that wrote to them (Model/Routing naming).
"""
from __future__ import annotations

from typing import Any, Dict, List, Optional, Sequence, Tuple

from lib import vlib
from lib.vlib import cq_list, cq_nat, cq_str, cq_z
from harness.routing import _cls, _optn

REQ = ["MV.Spec.Rel", "MV.Model.Routing", "MV.Model.RoutingJ"]
JT = {"INNER": "JInner", "LEFT": "JLeft", "RIGHT": "JRight", "OUTER": "JOuter", "APPEND": "JAppend", "UNION": "JUnion"}

DEFS = """
Definition opt_nat_eqb (a b : option nat) : bool :=
  match a, b with Some x, Some y => Nat.eqb x y | None, None => true | _, _ => false end.
Definition foot_eqb (a b : foot) : bool :=
  Nat.eqb (fst (fst a)) (fst (fst b)) && Nat.eqb (snd (fst a)) (snd (fst b)) && opt_nat_eqb (snd a) (snd b).
Fixpoint foots_eqb (a b : list foot) : bool :=
  match a, b with [] , [] => true | x :: r, y :: t => foot_eqb x y && foots_eqb r t | _, _ => false end.
(* the footprints of all begun steps, computed from the plan and the begin order (registry lookups, merge relation),
   equal the observed ones and no lookup fails or diverges on a step that began *)
Definition chk_route_x (c : list xstep * list foot) : bool :=
  match run_x x_init (fst c) with
  | (s, XOk) => foots_eqb (x_feet s) (snd c)
  | (s, XNoData _) => foots_eqb (x_feet s) (firstn (List.length (x_feet s)) (snd c))
  | _ => false
  end.
(* the rows the consumer step `sid` received = the table the model holds for its object when it begins *)
Definition chk_seen (c : (list xstep * nat) * table) : bool :=
  match c with ((steps, sid), rows) =>
    match run_x x_init steps with
    | (s, XOk) => match find (fun p => Nat.eqb (fst p) sid) (x_seen s) with Some (_, t) => bag_eqb t rows | None => false end
    | _ => false
    end
  end.
"""


def norm(v: Any) -> Optional[int]:
    if v is None:
        return None
    if isinstance(v, float):
        return None if v != v else int(v)
    return int(v)


def cq_table(cols: Dict[str, List[Any]]) -> str:
    n = len(next(iter(cols.values())))
    rows = []
    for i in range(n):
        rows.append(cq_list(f"({cq_str(k)}, {'VNull' if norm(v[i]) is None else 'VInt ' + cq_z(norm(v[i]))})" for k, v in cols.items()))
    return cq_list(rows)


def terms_x(spec: Dict[str, Any], plan: Dict[str, Any], begin_order: Sequence[int],
            foot: Dict[int, Tuple[int, List[int]]]) -> Optional[Tuple[List[str], List[str]]]:
    steps = {s["sid"]: s for s in plan["steps"]}
    groups = {g["name"]: g for g in spec["groups"]}
    creator: Dict[int, int] = {}
    xs: List[str] = []
    feet: List[str] = []
    for sid in begin_order:
        s = steps.get(sid)
        ft = foot.get(sid)
        if s is None or ft is None or "req_order" not in s:
            return None
        w, reads = ft
        creator.setdefault(w, sid)
        rd = [x for x in reads[1:]]
        if s["kind"] == "FG":
            g = groups.get(s["group"])
            tab = f"(Some {cq_table(g['cols'])})" if g and g["kind"] == "root" else "None"
            xs.append(f"XB {{| rs_sid := {cq_nat(sid)}; rs_kind := RFG; rs_cls := {_cls(s['cfw'])}; rs_from := 0; "
                      f"rs_any := {cq_nat(s['any_uuid'] or 0)}; rs_cir := {cq_list(cq_nat(u) for u in s['children_if_root'])}; "
                      f"rs_tfs := {cq_list(cq_nat(u) for u in s['tfs_order'])}; rs_req := {cq_list(cq_nat(u) for u in s['req_order'])}; "
                      f"rs_right := None; rs_link := None; rs_root := None; rs_defs := [] |}} {tab}")
            feet.append(f"({cq_nat(sid)}, {cq_nat(creator[w])}, None)")
        elif s["kind"] == "TFS":
            xs.append(f"XB {{| rs_sid := {cq_nat(sid)}; rs_kind := RTFS; rs_cls := {_cls(s['to_cfw'])}; rs_from := {_cls(s['from_cfw'])}; "
                      f"rs_any := 0; rs_cir := []; rs_tfs := []; rs_req := {cq_list(cq_nat(u) for u in s['req_order'])}; "
                      f"rs_right := {_optn(s.get('right_uuid'))}; rs_link := {_optn(s.get('link_id'))}; rs_root := None; rs_defs := [] |}} None")
            feet.append(f"({cq_nat(sid)}, {cq_nat(creator[w])}, {_optn(creator.get(rd[0]) if rd else None)})")
        else:
            xs.append(f"XJ {{| j_sid := {cq_nat(sid)}; j_cls := {_cls(s['left_cfw'])}; j_left := {cq_list(cq_nat(u) for u in s['left_order'])}; "
                      f"j_right := {cq_list(cq_nat(u) for u in s['right_order'])}; j_link := {cq_nat(s['uuids'][1])}; "
                      f"j_jt := {JT[s['jt']]}; j_lk := {cq_list(cq_str(c) for c in s['link'][1])}; j_rk := {cq_list(cq_str(c) for c in s['link'][3])} |}}")
            feet.append(f"({cq_nat(sid)}, {cq_nat(creator[w])}, {_optn(creator.get(rd[0]) if rd else None)})")
    return xs, feet


def check_routes(prop: str, name: str, items: List[Tuple[List[str], List[str]]]) -> Tuple[List[int], Dict[str, Any]]:
    if not items:
        return [], {}
    cases = [f"({cq_list(a)}, {cq_list(b)})" for a, b in items]
    return vlib.run_cases(prop, name, REQ, "chk_route_x", cases, extra_defs=DEFS, case_type="list xstep * list foot", shard=60)


def check_seen(prop: str, name: str, items: List[Tuple[List[str], int, str]]) -> Tuple[List[int], Dict[str, Any]]:
    if not items:
        return [], {}
    cases = [f"(({cq_list(a)}, {cq_nat(sid)}), {rows})" for a, sid, rows in items]
    return vlib.run_cases(prop, name, REQ, "chk_seen", cases, extra_defs=DEFS, case_type="(list xstep * nat) * table", shard=60)
