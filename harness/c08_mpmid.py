"""C08, MULTIPROCESSING: a worker process that fails in the MIDDLE of a pass of the orchestrator's loop (tie of Model/WorkerMid.v /
Props/C08mid.v Worker_midpass_failure_message_preserved to the real runtime).

Schedule forced without source hooks (the MP analogue of harness/c01_midpass.py, which does it for THREADING):

  * request = independent requested root feature groups, one compute-framework object each -> one worker process each
    (same framework class or different ones); the step at the LAST plan position fails in its calculation
    (Universe.fail -> RuntimeError("VERIF-FAULT calc <group>.<feature>") inside the worker process);
  * GateListener (runs inside the forked worker, in calculate_feature before the fault): the failing calculation waits for the file
    `go`, so the worker cannot fail before the main loop is where we want it;
  * hold point (main process, class-level wrapper installed on top of worker_proto's observers), reached AFTER the loop head of the
    current pass polled the error register and BEFORE the pass reaches the failing step:
      hold = "psr"      entry of ExecutionOrchestrator._process_step_result of the FIRST plan step (before its poll), or
      hold = "collect"  DataLifecycleManager.add_to_result_data_collection of the first plan step (the main thread is busy
                        collecting an earlier step's result: the window named in seeded/C08_r5/NOTES.md);
    there the harness creates `go` and waits until a worker process of the run has EXITED (Process.exitcode of the entries of
    WorkerManager.process_register: set_error was called, "STOP" put, the process is gone), at most HOLD_LIMIT_S; then the pass goes on.

Judged directly (property text): the call raises, the exception carries the injected message, nothing is returned, within the
watchdog; plus worker_proto.judge (no process / dataset left).  The observed history (worker_proto.build_history: Model/Worker.v
labels) is replayed by chk_proto: it must be a trace of the model ending in the observed exit kind - in the model a WFail is
followed by XRaisedHead only (Worker_midpass_failure_message_preserved), so a run that raises anything else from the loop body is
rejected there as well.  A run in which the schedule was NOT forced (the hold point was not reached, or no worker exited while the
main thread was held) is reported, not silently accepted.

  family(rep, prop, tier, seed) -> found     what harness/c08.py calls
  replay(case) -> exit code                  ./check C08 --replay for a stored case (kind "mp_midpass")
  python3 -m harness.c08_mpmid [tier]        self test
"""
from __future__ import annotations

import json
import logging
import multiprocessing
import os
import sys
import time
from typing import Any, Dict, List, Optional, Tuple

from lib import vlib
from harness import worker_proto as wp
from harness.universe import Listener

HOLD_LIMIT_S = 25.0
GATE_LIMIT_S = 40.0
MID: Dict[str, Any] = {"armed": False, "hold": None, "hold_uuid": None, "go": None, "orch": None, "info": {}}
_installed = [False]


class GateListener(Listener):
    """The gated group's calculation waits (inside the worker process) for the `go` file."""

    def __init__(self) -> None:
        self.gated: set = set()
        self.go: Optional[str] = None
        self.parent = os.getpid()

    def on_enter(self, group: str, names: List[str], cols: List[str], data: Any, features: Any = None) -> None:
        if group in self.gated and self.go and os.getpid() != self.parent:
            end = time.time() + GATE_LIMIT_S
            while time.time() < end and not os.path.exists(self.go):
                time.sleep(0.002)

    def on_exit(self, group: str, names: List[str]) -> None:
        pass


def _hold(where: str) -> None:
    """Main thread, inside a pass: let the gated worker fail and wait until a worker process of this run has exited."""
    info = MID["info"]
    info["held_at"] = where
    orch = MID["orch"]
    t0 = time.time()
    with open(MID["go"], "w") as f:
        f.write("go")
    procs = [t[0] for t in list(orch.worker_manager.process_register.values())] if orch is not None else []
    info["workers_at_hold"] = len(procs)
    codes: List[Any] = []
    while time.time() - t0 < HOLD_LIMIT_S:
        codes = [p.exitcode for p in procs]
        if any(c is not None for c in codes):
            break
        time.sleep(0.003)
    info["exit_codes"] = codes
    info["worker_exited"] = any(c is not None for c in codes)
    info["hold_s"] = round(time.time() - t0, 3)


def install() -> None:
    wp.install()
    if _installed[0]:
        return
    _installed[0] = True
    from mloda.core.runtime.run import ExecutionOrchestrator
    from mloda.core.runtime.data_lifecycle_manager import DataLifecycleManager

    prev_psr = ExecutionOrchestrator._process_step_result

    def psr(self: Any, step: Any) -> Any:
        if MID["armed"] and wp.OBS.is_main():
            MID["orch"] = self
            if MID["hold"] == "psr" and str(step.uuid) == MID["hold_uuid"] and "held_at" not in MID["info"]:
                _hold("psr")
        return prev_psr(self, step)
    ExecutionOrchestrator._process_step_result = psr  # type: ignore[method-assign]

    prev_add = DataLifecycleManager.add_to_result_data_collection

    def addres(self: Any, cfw: Any, features: Any, step_uuid: Any, location: Any = None) -> Any:
        if MID["armed"] and wp.OBS.is_main() and MID["hold"] == "collect" and str(step_uuid) == MID["hold_uuid"] \
                and "held_at" not in MID["info"]:
            _hold("collect")
        return prev_add(self, cfw, features, step_uuid, location)
    DataLifecycleManager.add_to_result_data_collection = addres  # type: ignore[method-assign]


def make_spec(cfws: List[str]) -> Dict[str, Any]:
    groups = [{"name": f"R{i}", "kind": "root", "cfw": c, "cols": {f"a{i}": [i + 1, i + 2, i + 3]}} for i, c in enumerate(cfws)]
    return {"groups": groups, "request": [f"a{i}" for i in range(len(cfws))]}


def one(cfws: List[str], variant: str, hold: str) -> Dict[str, Any]:
    """One forced run.  Returns a JSON-able record: case (replay), term (for chk_proto) or None, problems (list of strings)."""
    logging.disable(logging.CRITICAL)
    install()
    spec = make_spec(cfws)
    case = {"kind": "mp_midpass", "cfws": cfws, "variant": variant, "hold": hold}
    rec: Dict[str, Any] = {"case": case, "term": None, "problems": [], "forced": False}
    ob = None
    for attempt in range(3):
        lst = GateListener()
        go = os.path.join(wp._scratch(), f"mpmid_go_{os.getpid()}_{int(time.time() * 1e6)}")
        if os.path.exists(go):
            os.unlink(go)
        lst.go = go
        MID.update(armed=False, hold=hold, hold_uuid=None, go=go, orch=None, info={})
        n = len(cfws)

        def on_prepared(uni: Any, plan: Dict[str, Any], steps: List[Any]) -> None:
            fg = [s for s in plan["steps"] if s["kind"] == "FG"]
            MID["info"]["plan_kinds"] = [s["kind"] for s in plan["steps"]]
            lst.gated = {plan["steps"][len(plan["steps"]) - 1]["group"]}
            MID["hold_uuid"] = str(steps[0].uuid)
            MID["info"]["fail_group"] = sorted(lst.gated)
            MID["info"]["n_fg"] = len(fg)
            MID["armed"] = True
        try:
            ob = wp.observe(spec, "M", variant, {"kind": "calc", "sid": n - 1}, None, timeout=HOLD_LIMIT_S + 35.0, listener=lst,
                            on_prepared=on_prepared)
        finally:
            MID["armed"] = False
            MID["orch"] = None
            if os.path.exists(go):
                os.unlink(go)
        if ob.get("exc") and any(k in ob["exc"] for k in wp.INFRA_ERRORS) and attempt < 2:
            rec["infra_retries"] = rec.get("infra_retries", 0) + 1
            continue
        break
    assert ob is not None
    info = dict(MID["info"])
    rec["info"] = info
    rec["status"], rec["exc"], rec["wall"] = ob["status"], ob.get("exc"), ob["wall"]
    case.update(status=ob["status"], exc=ob.get("exc"), info=info)
    rec["forced"] = bool(info.get("held_at")) and bool(info.get("worker_exited"))
    rec["exit_codes"] = info.get("exit_codes")
    # ---- the property, directly
    if ob["status"] == "hang":
        rec["problems"].append("the call did not return within the watchdog")
    elif ob["status"] == "ok":
        rec["problems"].append(f"a worker process failed (VERIF-FAULT calc in {info.get('fail_group')}) in the middle of a pass but the call "
                               "returned normally: the failure is lost")
    elif "VERIF-FAULT" not in (ob.get("exc") or ""):
        rec["problems"].append("a worker process failed in the middle of a pass (its error was recorded, then the process exited with code "
                               f"{[c for c in (info.get('exit_codes') or []) if c is not None]}); the caller's exception does not carry the "
                               f"original message 'VERIF-FAULT calc ...': {ob.get('exc')}")
    if not rec["forced"]:
        rec["problems"].append(f"the schedule was not forced (hold point reached: {info.get('held_at')}, worker exited while held: "
                               f"{info.get('worker_exited')}, plan {info.get('plan_kinds')}): the run shows nothing")
    # ---- the model: the observed history must be a trace of Model/Worker.v with that outcome
    try:
        h = wp.build_history(ob)
        rec["term"] = wp.cq_case(ob["plan"], "M", variant != "run", h)
        rec["exit"] = h["exit"]
        rec["n_workers"] = h["n_workers"]
        hist = [" ".join(str(x) for x in l) for l in h["hist"]]
        case["history"] = hist
        # position of the failure inside the pass: labels of the main thread between the WFail and the next OHead
        labs = [l[0] for l in h["hist"]]
        if "WFail" in labs:
            k = labs.index("WFail")
            heads_before = labs[:k].count("OHead")
            nxt = labs.index("OHead", k) if "OHead" in labs[k:] else len(labs)
            rec["main_labels_after_fail"] = [x for x in labs[k + 1:nxt] if x.startswith("O")]
            rec["midpass_in_history"] = heads_before >= 1 and labs[k - 1] != "OEndScan" and len(rec["main_labels_after_fail"]) >= 1
        for b in wp.judge(ob, h):
            rec["problems"].append(b)
    except Exception as e:  # noqa: BLE001
        rec["problems"].append(f"the observed records do not form a history: {type(e).__name__}: {str(e)[:200]}")
    return rec


def plan_of_runs(tier: str) -> List[Tuple[List[str], str, str]]:
    a, p = "PyArrowTable", "PandasDataFrame"
    quick = [([a, a], "run", "collect"), ([a, p], "run", "psr"), ([a, a], "stream", "collect")]
    if tier != "thorough":
        return quick
    more = [([c0, c1], v, h) for (c0, c1) in ((a, a), (a, p), (p, a)) for v in ("run", "stream") for h in ("psr", "collect")]
    more += [([a, a, a], "run", "collect"), ([a, p, a], "stream", "psr")]
    return more


def family(rep: Any, prop: str, tier: str, seed: int) -> bool:
    t0 = time.time()
    recs = [one(c, v, h) for c, v, h in plan_of_runs(tier)]
    info: Dict[str, Any] = {"runs": len(recs), "forced": sum(1 for r in recs if r["forced"]), "replayed": 0, "failures": 0,
                            "midpass_in_history": sum(1 for r in recs if r.get("midpass_in_history")),
                            "exit": {}, "hold_s": [r["info"].get("hold_s") for r in recs],
                            "worker_exit_codes": [r.get("exit_codes") for r in recs],
                            "main_labels_between_failure_and_head": [r.get("main_labels_after_fail") for r in recs]}
    terms = [r["term"] for r in recs if r["term"]]
    idx = [k for k, r in enumerate(recs) if r["term"]]
    bad = vlib.run_cases(prop, "mp_midpass", wp.REQ, "chk_proto", terms, case_type="pcase", shard=25)[0] if terms else []
    info["replayed"] = len(terms)
    badset = {idx[k] for k in bad}
    found = False
    for k, r in enumerate(recs):
        rep.count(1)
        info["exit"][r.get("exit", "?")] = info["exit"].get(r.get("exit", "?"), 0) + 1
        c = r["case"]
        if r["forced"]:
            rep.nontrivial(("mp_midpass", tuple(c["cfws"]), c["variant"], c["hold"]))
        key = f"mp-midpass:{'+'.join(c['cfws'])}:{c['variant']}:{c['hold']}"
        what = list(r["problems"])
        if k in badset:
            what.append(f"the observed history (outcome {r.get('exit')}) is not a trace of Model/Worker.v ending with that outcome: "
                        + wp._diagnose(prop, r["term"]))
        if what:
            info["failures"] += 1
            found = True
            rep.finding(key, f"MULTIPROCESSING, worker failure in the middle of a pass ({len(c['cfws'])} root groups on {c['cfws']}, "
                             f"{c['variant']}, main thread held in {c['hold']}): " + " | ".join(what), c)
    info["wall_s"] = round(time.time() - t0, 1)
    rep.add("mp_midpass_failure_family", info)
    return found


def replay(case: Dict[str, Any]) -> int:
    r = one(case["cfws"], case["variant"], case["hold"])
    bad = vlib.run_cases("C08", "mp_midpass_replay", wp.REQ, "chk_proto", [r["term"]], case_type="pcase")[0] if r["term"] else [0]
    wp.stop_flight_server()
    print(json.dumps({"status": r["status"], "exc": r["exc"], "forced": r["forced"], "exit": r.get("exit"), "model_accepts": not bad,
                      "problems": r["problems"], "history": r["case"].get("history")}, indent=1, default=str))
    return 0 if (not r["problems"] and not bad) else 1


def main(argv: List[str]) -> int:
    tier = argv[1] if len(argv) > 1 else "quick"
    rc = 0
    for c, v, h in plan_of_runs(tier):
        r = one(c, v, h)
        bad = vlib.run_cases("C08", "mp_midpass_self", wp.REQ, "chk_proto", [r["term"]], case_type="pcase")[0] if r["term"] else [0]
        print(c, v, h, "->", r["status"], r.get("exit"), "forced", r["forced"], "model", "accepts" if not bad else "REJECTS",
              "hold_s", r["info"].get("hold_s"), "codes", r.get("exit_codes"), "after-fail", r.get("main_labels_after_fail"), "wall", r["wall"])
        print("   exc:", r["exc"])
        for p in r["problems"]:
            print("   PROBLEM:", p)
            rc = 1
        if bad:
            rc = 1
            print("   ", wp._diagnose("C08", r["term"]))
            print("   history:", "; ".join(r["case"].get("history", [])))
    wp.stop_flight_server()
    for p in multiprocessing.active_children():
        try:
            p.kill()
        except Exception:  # noqa: BLE001
            pass
    return rc


if __name__ == "__main__":
    rc = main(sys.argv)
    sys.stdout.flush()
    os._exit(rc)
